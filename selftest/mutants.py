# Mutant catalogue for the self-test: (id, file, old, new, count) string replacements on /repo.
M=[]
def m(id,f,old,new,count=1): M.append((id,f,old,new,count))
# --- flyt.go Run
m('M01','flyt.go','for attempt := 0; attempt < maxRetries; attempt++ {\n\t\t// Check context before retry','for attempt := 0; attempt <= maxRetries; attempt++ {\n\t\t// Check context before retry')
m('M03','flyt.go','\t\texecResult, execErr = node.Exec(ctx, prepResult)\n\t\tif execErr == nil {\n\t\t\tbreak\n\t\t}','\t\texecResult, execErr = node.Exec(ctx, prepResult)\n\t\tif execErr == nil && attempt == maxRetries-1 {\n\t\t\tbreak\n\t\t}')
m('M06','flyt.go','execResult, execErr = fallback.ExecFallback(prepResult, execErr)','execResult, execErr = fallback.ExecFallback(nil, execErr)')
m('M08','flyt.go','action, err := node.Post(ctx, shared, prepResult, execResult)\n\tif err != nil {\n\t\treturn "", fmt.Errorf("run: post failed: %w", err)\n\t}\n\n\tif action == "" {\n\t\taction = DefaultAction','action, err := node.Post(ctx, shared, prepResult, nil)\n\tif err != nil {\n\t\treturn "", fmt.Errorf("run: post failed: %w", err)\n\t}\n\n\tif action == "" {\n\t\taction = DefaultAction')
m('M10','flyt.go','\tif action == "" {\n\t\taction = DefaultAction\n\t}\n\n\treturn action, nil\n}\n\n// Flow represents','\treturn action, nil\n}\n\n// Flow represents')
m('M11','flyt.go','return "", fmt.Errorf("run: post failed: %w", err)\n\t}\n\n\tif action == "" {','return action, fmt.Errorf("run: post failed: %w", err)\n\t}\n\n\tif action == "" {')
for i,(f,s) in enumerate([('flyt.go','run: prep failed: %w", err)\n\t}\n\n\t// Check context again'),('flyt.go','run: exec failed after %d retries: %w'),('flyt.go','run: post failed: %w", err)\n\t}\n\n\tif action == ""'),('flyt.go','flow: exec cancelled: %w'),('batch.go','run: prep failed: %w'),('batch.go','run: post failed: %w", err)\n\t\t}\n\t\treturn action, nil'),('batch.go','run: post failed: %w", err)\n\t}\n\n\tif action == ""')]):
    m('M12.%d'%i,f,s,s.replace('%w','%v'))
m('M13','flyt.go','\t\taction, err := Run(ctx, current, shared)\n\t\tif err != nil {\n\t\t\treturn nil, err\n\t\t}','\t\taction, err := Run(ctx, current, shared)\n\t\tif err != nil {\n\t\t\tbreak\n\t\t}')
m('M14','flyt.go','\t// Check context before each phase\n\tif err := ctx.Err(); err != nil {\n\t\treturn "", fmt.Errorf("run: context cancelled: %w", err)\n\t}\n','')
m('M15','flyt.go','\t\t// Check context before retry\n\t\tif err := ctx.Err(); err != nil {\n\t\t\treturn "", fmt.Errorf("run: context cancelled during retry: %w", err)\n\t\t}\n','')
m('M17','flyt.go','\t\tif err := ctx.Err(); err != nil {\n\t\t\treturn nil, fmt.Errorf("flow: exec cancelled: %w", err)\n\t\t}','\t\tif err := ctx.Err(); err != nil {\n\t\t\treturn lastAction, nil\n\t\t}')
m('M18','flyt.go','\t\tif attempt > 0 && wait > 0 {\n\t\t\tselect {\n\t\t\tcase <-time.After(wait):\n\t\t\t\t// Continue with retry','\t\tif attempt >= 0 && wait > 0 {\n\t\t\tselect {\n\t\t\tcase <-time.After(wait):\n\t\t\t\t// Continue with retry')
m('M19','flyt.go','\t\tif attempt > 0 && wait > 0 {\n\t\t\tselect {\n\t\t\tcase <-time.After(wait):\n\t\t\t\t// Continue with retry','\t\tif attempt > 1 && wait > 0 {\n\t\t\tselect {\n\t\t\tcase <-time.After(wait):\n\t\t\t\t// Continue with retry')
m('M20','flyt.go','\t\t\tselect {\n\t\t\tcase <-time.After(wait):\n\t\t\t\t// Continue with retry\n\t\t\tcase <-ctx.Done():\n\t\t\t\treturn "", fmt.Errorf("run: context cancelled during wait: %w", ctx.Err())\n\t\t\t}','\t\t\ttime.Sleep(wait)')
m('M21','batch.go','if attempt > 0 && wait > 0 {','if attempt > 0 && wait > 0 && false {')
m('M22','flyt.go','\tf.transitions[from][action] = to\n','\tif _, ok := f.transitions[from][action]; !ok {\n\t\tf.transitions[from][action] = to\n\t}\n')
m('M24','flyt.go','\t\t\tif next, ok := transitions[action]; ok {\n\t\t\t\tcurrent = next','\t\t\tif next, ok := transitions[action]; ok && next != nil {\n\t\t\t\tcurrent = next')
m('M25','flyt.go','\t\t\t} else {\n\t\t\t\t// No transition for this action, flow ends\n\t\t\t\tbreak\n\t\t\t}','\t\t\t} else if next, ok := transitions[DefaultAction]; ok {\n\t\t\t\tcurrent = next\n\t\t\t} else {\n\t\t\t\tbreak\n\t\t\t}')
m('M27','flyt.go','\tif action, ok := execResult.(Action); ok {\n\t\treturn action, nil\n\t}\n\treturn DefaultAction, nil','\treturn DefaultAction, nil')
m('M28','flyt.go','\t// Pass the shared store to Exec\n\treturn shared, nil','\t// Pass the shared store to Exec\n\treturn NewSharedStore(), nil')
m('M29','flyt.go','\t\tlastAction = action\n','\t\tif lastAction == "" {\n\t\t\tlastAction = action\n\t\t}\n')
m('M31','batch.go','\tpool.Wait()\n}','}')
m('M35','batch.go','\t\t\tresults[i] = NewErrorResult(err)\n\t\t\tif errorHandling == "stop" {','\t\t\tresults[i] = NewErrorResult(err)\n\t\t\tif errorHandling != "" {')
m('M36','batch.go','return fallback.ExecFallback(item, execErr)','return fallback.ExecFallback(nil, execErr)')
m('M37','flyt.go','for i := 0; i < workers; i++ {','for i := 0; i <= workers; i++ {')
m('M38','flyt.go','\t\t\ttask()\n\t\tcase <-p.done:','\t\t\tgo task()\n\t\tcase <-p.done:')
m('M39a','batch.go','if concurrency > 0 {\n\t\trunBatchConcurrent','if concurrency > 1 {\n\t\trunBatchConcurrent')
m('M39b','batch.go','if concurrency > 0 {\n\t\trunBatchConcurrent','if concurrency >= 0 {\n\t\trunBatchConcurrent')
m('M40','batch.go','pool := NewWorkerPool(concurrency)','pool := NewWorkerPool(1)')
m('M41','batch.go','if shouldStop && errorHandling == "stop" {','if shouldStop && errorHandling == "stop" && false {')
m('M42','batch.go','\t\t\t\tif errorHandling == "stop" {\n\t\t\t\t\tshouldStop = true\n\t\t\t\t}','')
m('M44','batch.go','results[idx] = NewErrorResult(fmt.Errorf("batch stopped due to error"))','results[idx] = Result{}')
m('M46','batch.go','\t\t\tif ctx.Err() != nil {\n\t\t\t\tresults[idx] = NewErrorResult(fmt.Errorf("context cancelled"))\n\t\t\t\treturn\n\t\t\t}\n','')
m('M47','batch.go','\t\tif ctx.Err() != nil {\n\t\t\tresults[i] = NewErrorResult(fmt.Errorf("context cancelled"))','\t\tif ctx.Err() != nil {\n\t\t\tresults[i] = Result{}')
m('M48','batch.go','\t\tif ctx.Err() != nil {\n\t\t\treturn nil, fmt.Errorf("context cancelled during retry: %w", ctx.Err())\n\t\t}\n','')
m('M49','flyt.go','\tp.wg.Add(1)\n\tp.tasks <- func() {\n\t\tdefer p.wg.Done()\n\t\ttask()\n\t}','\tp.tasks <- func() {\n\t\tdefer p.wg.Done()\n\t\ttask()\n\t}\n\tp.wg.Add(1)')
m('M50','flyt.go','\tp.wg.Add(1)\n\tp.tasks <- func() {\n\t\tdefer p.wg.Done()\n\t\ttask()\n\t}','\tp.wg.Add(1)\n\tselect {\n\tcase p.tasks <- func() {\n\t\tdefer p.wg.Done()\n\t\ttask()\n\t}:\n\tdefault:\n\t\tp.wg.Done()\n\t}')
m('M51','flyt.go','\t\tdefer p.wg.Done()\n\t\ttask()','\t\tp.wg.Done()\n\t\ttask()')
m('M53','flyt.go','func (s *SharedStore) Len() int {\n\ts.mu.RLock()\n\tdefer s.mu.RUnlock()\n','func (s *SharedStore) Len() int {\n')
m('M54','flyt.go','\ts.mu.Lock()\n\tdefer s.mu.Unlock()\n\tfor k, v := range data {\n\t\ts.data[k] = v\n\t}','\tfor k, v := range data {\n\t\ts.mu.Lock()\n\t\ts.data[k] = v\n\t\ts.mu.Unlock()\n\t}')
m('M55','flyt.go','\ts.mu.Lock()\n\tdefer s.mu.Unlock()\n\ts.data = make(map[string]any)','\tfresh := make(map[string]any)\n\ts.mu.Lock()\n\ts.mu.Unlock()\n\ts.data = fresh')
m('M56','flyt.go','\ts.mu.Lock()\n\tdefer s.mu.Unlock()\n\ts.data[key] = value','\ts.mu.RLock()\n\tdefer s.mu.RUnlock()\n\ts.data[key] = value')
m('M57','flyt.go','\tcopy := make(map[string]any, len(s.data))\n\tfor k, v := range s.data {\n\t\tcopy[k] = v\n\t}\n\treturn copy','\treturn s.data')
m('M58','flyt.go','\ts.data = make(map[string]any)\n','\tfor k := range s.data {\n\t\tdelete(s.data, k)\n\t\tbreak\n\t}\n')
m('M59','flyt.go','\tfor k, v := range data {\n\t\ts.data[k] = v\n\t}','\tfor k, v := range data {\n\t\tif _, ok := s.data[k]; !ok {\n\t\t\ts.data[k] = v\n\t\t}\n\t}')
m('M60','flyt.go','\t_, ok := s.data[key]\n\treturn ok','\tv, ok := s.data[key]\n\treturn ok && v != nil')
m('M61','flyt.go','keys := make([]string, 0, len(s.data))','keys := make([]string, len(s.data))')
m('M62','result.go','\tcase uint8:\n\t\treturn int(v), true','\tcase uint8:\n\t\treturn int(int8(v)), true')
m('M63','flyt.go','\tcase float32:\n\t\treturn int(v)\n','')
m('M64','result.go','\t\tpanic(fmt.Sprintf("Result.MustInt: value cannot be converted to int (type %T)", r))','\t\treturn 0')
m('M65','flyt.go','\tif v == nil {\n\t\treturn []any{}\n\t}','\tif v == nil {\n\t\treturn nil\n\t}')
m('M66','flyt.go','for i := 0; i < rv.Len(); i++ {\n\t\t\t\tresult[i] = rv.Index(i).Interface()','for i := 1; i < rv.Len(); i++ {\n\t\t\t\tresult[i] = rv.Index(i).Interface()')
m('M67','result.go','if rv.Kind() != reflect.Ptr || rv.IsNil() {','if rv.Kind() != reflect.Ptr {')
m('M69','result.go','\tif err != nil {\n\t\treturn fmt.Errorf("failed to marshal Result: %w", err)\n\t}','\t_ = err')
m('M71','flyt.go','\t\treturn result.Value(), nil\n\t}\n\treturn n.BaseNode.Prep(ctx, shared)','\t\treturn result, nil\n\t}\n\treturn n.BaseNode.Prep(ctx, shared)')
m('M72','builder.go','\t\tval, err := fn(ctx, prepResult.Value())\n\t\tif err != nil {\n\t\t\treturn Result{}, err\n\t\t}\n\t\treturn NewResult(val), nil','\t\tval, err := fn(ctx, prepResult.Value())\n\t\tif err != nil {\n\t\t\treturn Result{}, err\n\t\t}\n\t\treturn NewResult(NewResult(val)), nil')
m('M73','flyt.go','\t\tif result.IsError() {\n\t\t\treturn result, nil\n\t\t}\n\t\treturn result.Value(), nil','\t\treturn result, nil')
m('M75','builder.go','\tWithWait(wait)(b.BaseNode)\n\treturn b\n}\n\n// WithPrepFunc sets','\tWithWait(wait)(b.BaseNode)\n\tb.maxRetries = 1\n\treturn b\n}\n\n// WithPrepFunc sets')
m('M76','builder.go','func (b *NodeBuilder) WithBatchErrorHandling(continueOnError bool) *NodeBuilder {\n\tif continueOnError {','func (b *NodeBuilder) WithBatchErrorHandling(continueOnError bool) *NodeBuilder {\n\tif !continueOnError {')
m('M77','flyt.go','return "continue" // default','return "stop" // default')
m('M78','flyt.go','\tfor _, opt := range baseOpts {\n\t\topt(node.BaseNode)\n\t}\n\n\t// Apply custom node options','\tfor i := len(baseOpts) - 1; i >= 0; i-- {\n\t\tbaseOpts[i](node.BaseNode)\n\t}\n\n\t// Apply custom node options')
m('M79','flyt.go','\tif workers <= 0 {\n\t\tworkers = 1\n\t}','\tif workers < 0 {\n\t\tworkers = 1\n\t}')

m('M08b','flyt.go','action, err := node.Post(ctx, shared, prepResult, execResult)\n\tif err != nil {\n\t\treturn "", fmt.Errorf("run: post failed: %w", err)\n\t}\n\n\tif action == "" {\n\t\taction = DefaultAction','_ = execResult\n\taction, err := node.Post(ctx, shared, prepResult, prepResult)\n\tif err != nil {\n\t\treturn "", fmt.Errorf("run: post failed: %w", err)\n\t}\n\n\tif action == "" {\n\t\taction = DefaultAction')
m('M20b','flyt.go','\t\t\tselect {\n\t\t\tcase <-time.After(wait):\n\t\t\t\t// Continue with retry\n\t\t\tcase <-ctx.Done():\n\t\t\t\treturn "", fmt.Errorf("run: context cancelled during wait: %w", ctx.Err())\n\t\t\t}','\t\t\ttime.Sleep(wait)\n\t\t\tif ctx.Err() != nil {\n\t\t\t\treturn "", fmt.Errorf("run: context cancelled during wait: %w", ctx.Err())\n\t\t\t}')
m('M02','flyt.go','for attempt := 0; attempt < maxRetries; attempt++ {\n\t\t// Check context before retry','for attempt := 0; attempt < maxRetries && (attempt < 3 || maxRetries < 5); attempt++ {\n\t\t// Check context before retry')
m('M04','flyt.go','\tif execErr != nil {\n\t\tif fallback, ok := node.(FallbackNode); ok {\n\t\t\texecResult, execErr = fallback.ExecFallback(prepResult, execErr)\n\t\t}','\tif execErr != nil {\n\t\tif fallback, ok := node.(FallbackNode); ok {\n\t\t\texecResult, execErr = fallback.ExecFallback(prepResult, execErr)\n\t\t\tif execErr != nil {\n\t\t\t\texecResult, execErr = fallback.ExecFallback(prepResult, execErr)\n\t\t\t}\n\t\t}')
m('M05','flyt.go','\t\texecResult, execErr = node.Exec(ctx, prepResult)\n\t\tif execErr == nil {\n\t\t\tbreak\n\t\t}\n\t}\n\n\t// Handle exec failure\n\tif execErr != nil {','\t\tvar e2 error\n\t\texecResult, e2 = node.Exec(ctx, prepResult)\n\t\tif e2 == nil {\n\t\t\texecErr = nil\n\t\t\tbreak\n\t\t}\n\t\tif execErr == nil {\n\t\t\texecErr = e2\n\t\t}\n\t}\n\n\t// Handle exec failure\n\tif execErr != nil {')
m('M07','flyt.go','\t\tif execErr != nil {\n\t\t\treturn "", fmt.Errorf("run: exec failed after %d retries: %w", maxRetries, execErr)\n\t\t}','\t\tif execErr != nil && execResult == nil {\n\t\t\treturn "", fmt.Errorf("run: exec failed after %d retries: %w", maxRetries, execErr)\n\t\t}')
m('M09','flyt.go','\t\texecResult, execErr = node.Exec(ctx, prepResult)\n\t\tif execErr == nil {\n\t\t\tbreak\n\t\t}','\t\tif attempt > 0 {\n\t\t\tprepResult, _ = node.Prep(ctx, shared)\n\t\t}\n\t\texecResult, execErr = node.Exec(ctx, prepResult)\n\t\tif execErr == nil {\n\t\t\tbreak\n\t\t}')
m('M16','flyt.go','return "", fmt.Errorf("run: context cancelled during retry: %w", err)','return "", fmt.Errorf("run: context cancelled during retry: %v", err)')
m('M23','flyt.go','\t\tlastAction = action\n\n\t\t// Find next node based on action\n\t\tif transitions, ok := f.transitions[current]; ok {\n\t\t\tif next, ok := transitions[action]; ok {','\t\tprev := lastAction\n\t\tif prev == "" {\n\t\t\tprev = action\n\t\t}\n\t\tlastAction = action\n\n\t\t// Find next node based on action\n\t\tif transitions, ok := f.transitions[current]; ok {\n\t\t\tif next, ok := transitions[prev]; ok {')
m('M30','batch.go','\t\t\t\tif r, ok := execResult.(Result); ok {\n\t\t\t\t\tresults[idx] = r\n\t\t\t\t} else {\n\t\t\t\t\tresults[idx] = NewResult(execResult)\n\t\t\t\t}\n\t\t\t}\n\t\t\tmu.Unlock()','\t\t\t\tif r, ok := execResult.(Result); ok {\n\t\t\t\t\tresults[done] = r\n\t\t\t\t} else {\n\t\t\t\t\tresults[done] = NewResult(execResult)\n\t\t\t\t}\n\t\t\t}\n\t\t\tdone++\n\t\t\tmu.Unlock()')
m('M30pre','batch.go','\tshouldStop := false\n','\tshouldStop := false\n\tdone := 0\n')
m('M32','batch.go','\t// Post phase - called once with all results\n','\tif len(items) > 3 {\n\t\tnode.Post(ctx, shared, items, results)\n\t}\n\t// Post phase - called once with all results\n')
m('M43','batch.go','\t\t\tmu.Lock()\n\t\t\tif shouldStop && errorHandling == "stop" {\n\t\t\t\tresults[idx] = NewErrorResult(fmt.Errorf("batch stopped due to error"))\n\t\t\t\tmu.Unlock()\n\t\t\t\treturn\n\t\t\t}\n\t\t\tmu.Unlock()','\t\t\tif shouldStop && errorHandling == "stop" {\n\t\t\t\tresults[idx] = NewErrorResult(fmt.Errorf("batch stopped due to error"))\n\t\t\t\treturn\n\t\t\t}')
m('M52','flyt.go','\tclose(p.done)\n\tclose(p.tasks)','\tclose(p.done)')
m('M68','result.go','destType := rv.Type().Elem()\n\tif valType == destType {','destType := rv.Type()\n\tif valType == destType {')
m('M70','flyt.go','\tif err := json.Unmarshal(jsonBytes, dest); err != nil {\n\t\treturn fmt.Errorf("failed to unmarshal to destination: %w", err)\n\t}\n\n\treturn nil\n}\n\n// MustBind is like Bind but panics if binding fails.\n// Use this only when binding failure should be considered a programming error.\n// This method is safe for concurrent access.','\tif err := json.Unmarshal(jsonBytes, dest); err != nil {\n\t\treturn nil\n\t}\n\n\treturn nil\n}\n\n// MustBind is like Bind but panics if binding fails.\n// Use this only when binding failure should be considered a programming error.\n// This method is safe for concurrent access.')
m('M80','flyt.go','\ts.mu.Lock()\n\tdefer s.mu.Unlock()\n\ts.data[key] = value','\tif key == "" {\n\t\treturn\n\t}\n\ts.mu.Lock()\n\tdefer s.mu.Unlock()\n\ts.data[key] = value')
m('M81','flyt.go','\tfor k, v := range data {\n\t\ts.data[k] = v\n\t}','\tfor k, v := range data {\n\t\tif v == nil {\n\t\t\tcontinue\n\t\t}\n\t\ts.data[k] = v\n\t}')
m('M82','flyt.go','\tcase int8:\n\t\treturn float64(v)\n\tcase int16:\n\t\treturn float64(v)\n\tcase int32:\n\t\treturn float64(v)\n\tcase int64:\n\t\treturn float64(v)\n\tcase uint:\n\t\treturn float64(v)\n\tcase uint8:\n\t\treturn float64(v)\n\tcase uint16:\n\t\treturn float64(v)\n\tcase uint32:\n\t\treturn float64(v)\n\tcase uint64:\n\t\treturn float64(v)\n\tdefault:\n\t\treturn defaultVal','\tcase int8:\n\t\treturn float64(v)\n\tcase int16:\n\t\treturn float64(v)\n\tcase int32:\n\t\treturn float64(v)\n\tcase int64:\n\t\treturn float64(v)\n\tcase uint:\n\t\treturn float64(v)\n\tcase uint8:\n\t\treturn float64(v)\n\tcase uint32:\n\t\treturn float64(v)\n\tcase uint64:\n\t\treturn float64(v)\n\tdefault:\n\t\treturn defaultVal')
m('M83','builder.go','return fn(ctx, shared, prepResult.Value(), execResult.Value())','return fn(ctx, shared, prepResult.Value(), prepResult.Value())')
m('M84','builder.go','\tWithMaxRetries(retries)(b.BaseNode)\n\treturn b\n}\n\n// WithWait sets','\tWithMaxRetries(retries)(b.BaseNode)\n\tb.wait = 0\n\treturn b\n}\n\n// WithWait sets')
m('M85','flyt.go','\tcase uint64:\n\t\treturn int(v)\n\tcase float32:\n\t\treturn int(v)\n\tcase float64:\n\t\treturn int(v)\n\tdefault:\n\t\treturn defaultVal','\tcase uint64:\n\t\treturn int(uint32(v))\n\tcase float32:\n\t\treturn int(v)\n\tcase float64:\n\t\treturn int(v)\n\tdefault:\n\t\treturn defaultVal')
m('M86','flyt.go','\tif slice, ok := val.([]any); ok {\n\t\treturn slice\n\t}\n\n\t// Try to convert using reflection\n','\t// Try to convert using reflection\n')
# negative controls
m('N1','flyt.go','\t// Check context again\n\tif err := ctx.Err(); err != nil {\n\t\treturn "", fmt.Errorf("run: context cancelled after prep: %w", err)\n\t}\n','')
# (was negative control N2 until round 8: the flow's own context check looked redundant next to Run's; it is not for a
# batch node that follows in the flow - runBatch calls prep without looking at the context - see VH_C05_batchSuccessor)
m('M87','flyt.go','\t\t// Check context\n\t\tif err := ctx.Err(); err != nil {\n\t\t\treturn nil, fmt.Errorf("flow: exec cancelled: %w", err)\n\t\t}\n','')
m('N3','flyt.go','tasks:   make(chan func(), workers*2),','tasks:   make(chan func(), workers),')
m('N4','batch.go','\t\tidx := i\n\t\titm := item\n','\t\tidx := i\n\t\titm := item\n\t\t_ = 0\n')
m('N5','flyt.go','\tclose(p.done)\n\tclose(p.tasks)','\tclose(p.tasks)\n\tclose(p.done)')

# which check must flag each mutant (None = negative control: every listed check must stay silent)
EXPECT = {
 'M01':['C02','C01'],'M02':['C02'],'M03':['C02','C01'],'M04':['C02','C01'],'M05':['C02','C01'],'M06':['C02','C01'],'M07':['C01','C04'],
 'M08':['C01'],'M08b':['C01'],'M09':['C01'],'M10':['C18','C01'],'M11':['C01'],
 'M12.0':['C04'],'M12.1':['C04'],'M12.2':['C04'],'M12.3':['C05'],'M12.4':['C04'],'M12.5':['C04'],'M12.6':['C04'],
 'M13':['C04'],'M14':['C05'],'M15':['C05'],'M16':['C05'],'M17':['C05'],'M18':['C20'],'M19':['C20'],'M20':['C20'],'M20b':['C20'],'M21':['C20'],
 'M22':['C03'],'M23':['C03'],'M24':['C03'],'M25':['C03'],'M27':['C10'],'M28':['C10'],'M29':['C10'],
 'M30':['C06'],'M31':['C06'],'M32':['C06'],'M35':['C07'],'M36':['C07'],'M37':['C08'],'M38':['C08','C12'],
 'M39a':None,'M39b':None,'M40':['C08'],'M41':['C09'],'M42':['C09'],'M43':['C09'],'M44':['C09'],
 'M46':['C11'],'M47':['C11'],'M48':['C11'],'M49':['C12'],'M50':['C12'],'M51':['C12','C06'],'M52':['C12'],
 'M53':['C13'],'M54':['C13'],'M55':['C13'],'M56':['C13'],'M57':['C14'],'M58':['C14'],'M59':['C14'],'M60':['C14'],'M61':['C14'],
 'M62':['C15'],'M63':['C15'],'M64':['C15'],'M65':['C15'],'M66':['C15'],'M67':['C16'],'M68':['C16'],'M69':['C16'],'M70':['C16'],
 'M71':['C17'],'M72':['C17'],'M73':['C17'],'M75':['C19'],'M76':['C19'],'M77':['C19'],'M78':['C19'],'M79':['C19','C08'],
 'M80':['C14'],'M81':['C14'],'M82':['C15'],'M83':['C17'],'M84':['C19'],'M85':['C15'],'M86':['C15'],
 'M87':['C05'],
 'N1':None,'N3':None,'N4':None,'N5':None,
}
NEG_CHECKS = {'M39a':['C08','C06','C09'],'M39b':['C08','C06','C09'],'N1':['C05','C01'],'N3':['C12','C08'],'N4':['C06'],'N5':['C12']}
