#!/usr/bin/env python3
"""Mutation self-test: apply each catalogue mutant to /repo's working tree, make sure the pinned suite
stays green (in a scratch copy), run the designated checks, restore /repo. Usage: run.py [ids...]"""
import os, sys, subprocess, shutil, json, tempfile, time
sys.path.insert(0, os.path.dirname(os.path.abspath(__file__)))
import mutants
SRC='/repo'; REPO='/tmp/selftest-wt'; VERIF=os.environ.get('VERIF_HOME') or os.path.dirname(os.path.dirname(os.path.abspath(__file__)))
# mutants are applied to a scratch worktree of /repo (removed at the end), never to /repo itself;
# the checks are pointed at it through VERIF_REPO
env=dict(os.environ, GOFLAGS='-mod=mod', GOPROXY='off', GOSUMDB='off', GOTOOLCHAIN='local', VERIF_REPO=REPO)
def sh(cmd, cwd=None, timeout=1200):
    r=subprocess.run(cmd, cwd=cwd, env=env, capture_output=True, text=True, timeout=timeout)
    return r.returncode, r.stdout+r.stderr
def suite_green(files):
    w=tempfile.mkdtemp(prefix='mut')
    try:
        for fn in os.listdir(REPO):
            if fn.endswith('.go') or fn in ('go.mod','go.sum'):
                shutil.copy(os.path.join(REPO,fn), w)
        for attempt in range(2):
            rc,out=sh(['go','test','-vet=off','-count=1','-timeout','120s','.'], cwd=w)
            if rc==0: return True, ''
        return False, out[-400:]
    finally:
        shutil.rmtree(w, ignore_errors=True)
only=[a for a in sys.argv[1:] if not a.startswith('-')]
tier='quick'
res={}
subprocess.run(['git','-C',SRC,'worktree','remove','--force',REPO],capture_output=True)
assert subprocess.run(['git','-C',SRC,'worktree','add','--detach',REPO,'HEAD'],capture_output=True).returncode==0
for id,f,old,new,count in mutants.M:
    if id=='M30pre': continue
    if only and id not in only: continue
    p=os.path.join(REPO,f); s=open(p).read()
    if s.count(old)!=count:
        res[id]={'status':'PATCH-FAIL'}; print(id,'PATCH-FAIL',s.count(old),flush=True); continue
    s2=s.replace(old,new)
    if id=='M30': s2=s2.replace('\tshouldStop := false\n','\tshouldStop := false\n\tdone := 0\n')
    try:
        open(p,'w').write(s2)
        rc,out=sh(['go','build','./...'], cwd=REPO)
        if rc!=0:
            res[id]={'status':'BUILD-FAIL'}; print(id,'BUILD-FAIL',out[-200:],flush=True); continue
        green,why=suite_green([f])
        exp=mutants.EXPECT.get(id)
        checks=exp if exp else mutants.NEG_CHECKS.get(id,[])
        outcome={}
        for c in checks:
            t0=time.time()
            rc,out=sh([os.path.join(VERIF,'check'),c,tier], cwd=VERIF)
            lines=[l for l in out.splitlines() if l.startswith(('VIOLATION','INCONCLUSIVE','OK ','KNOWN'))]
            outcome[c]={'exit':rc,'s':round(time.time()-t0,1),'lines':lines[:3]}
        flagged=[c for c in checks if outcome[c]['exit']==1]
        inconc=[c for c in checks if outcome[c]['exit']==2]
        if exp is None:
            status='NEG-OK' if not flagged and not inconc else 'NEG-FALSE-ALARM'
        else:
            status='CAUGHT' if flagged else ('INCONCLUSIVE' if inconc else 'MISSED')
        res[id]={'status':status,'suite_green':green,'flagged':flagged,'outcome':outcome}
        print(id,status,'suite_green=%s'%green,'flagged=%s'%flagged, ' '.join('%s:%d(%.0fs)'%(c,o['exit'],o['s']) for c,o in outcome.items()),flush=True)
        if status in ('MISSED','INCONCLUSIVE','NEG-FALSE-ALARM'):
            for c,o in outcome.items(): print('    ',c,o['lines'][:2])
    finally:
        sh(['git','checkout','--','.'], cwd=REPO)
subprocess.run(['git','-C',SRC,'worktree','remove','--force',REPO],capture_output=True)
json.dump(res,open(os.path.join(VERIF,'selftest','last_run.json'),'w'),indent=1)
from collections import Counter
print(Counter(v['status'] for v in res.values()))
