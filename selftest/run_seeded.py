#!/usr/bin/env python3
"""Apply every seeded change (seeded/*/patch.diff) to a scratch worktree and run the quick check of
the property it breaks: every one must be flagged (exit 1). Usage: run_seeded.py [names...]"""
import os, sys, subprocess, json, glob, time
SRC='/repo'; WT='/tmp/seeded-wt'; VERIF=os.environ.get('VERIF_HOME') or os.path.dirname(os.path.dirname(os.path.abspath(__file__)))
env=dict(os.environ, GOFLAGS='-mod=mod', GOPROXY='off', GOSUMDB='off', GOTOOLCHAIN='local', VERIF_REPO=WT)
subprocess.run(['git','-C',SRC,'worktree','remove','--force',WT],capture_output=True)
assert subprocess.run(['git','-C',SRC,'worktree','add','--detach',WT,'HEAD'],capture_output=True).returncode==0
only=sys.argv[1:]
res={}
try:
    for d in sorted(glob.glob(os.path.join(VERIF,'seeded','s*'))):
        name=os.path.basename(d)
        if only and not any(name.startswith(o) for o in only): continue
        meta=json.load(open(os.path.join(d,'meta.json')))
        prop=meta['breaks_property']
        subprocess.run(['git','-C',WT,'checkout','-q','--','.'])
        if subprocess.run(['git','-C',WT,'apply',os.path.join(d,'patch.diff')],capture_output=True).returncode!=0:
            res[name]='PATCH-FAIL'; print(name,'PATCH-FAIL',flush=True); continue
        t0=time.time()
        r=subprocess.run([os.path.join(VERIF,'check'),prop,'quick'],cwd=VERIF,env=env,capture_output=True,text=True,timeout=1800)
        lines=[l for l in (r.stdout+r.stderr).splitlines() if l.startswith(('VIOLATION','INCONCLUSIVE','OK '))]
        st={1:'CAUGHT',0:'MISSED',2:'INCONCLUSIVE'}.get(r.returncode,'?')
        res[name]=st
        print(name,prop,st,'%.0fs'%(time.time()-t0),(lines[0][:110] if lines else ''),flush=True)
finally:
    subprocess.run(['git','-C',SRC,'worktree','remove','--force',WT],capture_output=True)
json.dump(res,open(os.path.join(VERIF,'selftest','last_seeded_run.json'),'w'),indent=1)
from collections import Counter
print(Counter(res.values()))
