#!/bin/sh
# apply one catalogue mutant to /repo (restore with: git -C /repo checkout -- .)
python3 - "$1" <<'PY'
import sys
sys.path.insert(0,'/verif/selftest')
import mutants
for id,f,old,new,count in mutants.M:
    if id==sys.argv[1]:
        p='/repo/'+f; s=open(p).read(); assert s.count(old)==count, s.count(old)
        s=s.replace(old,new)
        if id=='M30': s=s.replace('\tshouldStop := false\n','\tshouldStop := false\n\tdone := 0\n')
        open(p,'w').write(s); print('applied',id)
PY
