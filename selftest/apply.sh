#!/bin/sh
# apply one catalogue mutant to the tree in $TREE (default /repo; restore with: git -C $TREE checkout -- .)
python3 - "$1" <<'PY'
import sys
sys.path.insert(0,'/verif/selftest')
import mutants
for id,f,old,new,count in mutants.M:
    if id==sys.argv[1]:
        import os
        p=os.environ.get('TREE','/repo')+'/'+f; s=open(p).read(); assert s.count(old)==count, s.count(old)
        s=s.replace(old,new)
        if id=='M30': s=s.replace('\tshouldStop := false\n','\tshouldStop := false\n\tdone := 0\n')
        open(p,'w').write(s); print('applied',id)
PY
