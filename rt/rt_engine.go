//go:build verif && !verifnative

package flyt

// Declarations of the harness intrinsics for the symbolic engine. The engine intercepts calls to
// these functions by name and never executes the bodies.

import (
	"sync"
	"time"
)

type vScalar interface {
	~bool | ~int | ~int8 | ~int16 | ~int32 | ~int64 | ~uint | ~uint8 | ~uint16 | ~uint32 | ~uint64 | ~uintptr | ~float32 | ~float64 | ~string
}

func vNondet[T vScalar](label string) T         { panic("intrinsic") }
func vNondetK[T vScalar](label string, k int) T { panic("intrinsic") }
func vChoice(label string, n int) int           { panic("intrinsic") }
func vConcrete(x int) int                       { panic("intrinsic") }
func vParam(name string, def int) int           { panic("intrinsic") }
func vAssume(c bool)                            { panic("intrinsic") }
func vAssert(c bool, label string)              { panic("intrinsic") }
func vCover(label string)                       { panic("intrinsic") }
func vUnwind(k int)                             { panic("intrinsic") }
func vLog(tag string, v int)                    { panic("intrinsic") }
func vLogS(tag string, s string)                { panic("intrinsic") }
func vPanics(f func()) bool                     { panic("intrinsic") }
func vSame(a, b any) bool                       { panic("intrinsic") }
func vSameDeep(a, b any) bool                   { panic("intrinsic") }
func vSig(name string, v int)                   { panic("intrinsic") }
func vYield()                                   { panic("intrinsic") }
func vMon(f func())                             { panic("intrinsic") }
func vMonC(class int, f func())                  { panic("intrinsic") }
func vBlockUntil(f func() bool)                 { panic("intrinsic") }
func vBlockUntilAny(f func() bool)              { panic("intrinsic") }
func vQuiesce() int                             { panic("intrinsic") }
func vThreadID() int                            { panic("intrinsic") }
func vThreadIdle(t int) bool                    { panic("intrinsic") }
func vNow() time.Duration                       { panic("intrinsic") }
func vAfterFunc(d time.Duration, f func())      { panic("intrinsic") }
func vGuardedBy(mu *sync.RWMutex, data *map[string]any) { panic("intrinsic") }
func vTimers() int                              { panic("intrinsic") }
func vSections(mu *sync.RWMutex) int            { panic("intrinsic") }
func vPick(idx int, opts ...any) any             { panic("intrinsic") }
func vRaceChecked(p any)                        { panic("intrinsic") }
func vThreadsCreated() int                      { panic("intrinsic") }
func vLockFree(mu *sync.RWMutex) bool            { panic("intrinsic") }
func vFail(msg string)                          { panic("intrinsic") }
