//go:build verif && verifnative

package flyt

// Native bodies of the harness intrinsics: values come from a tape (the solver's model), so that a
// harness run by `go test` replays exactly the path the engine found.

import (
	"fmt"
	"math"
	"os"
	"reflect"
	"runtime"
	"strconv"
	"strings"
	"sync"
	"time"
)

type vScalar interface {
	~bool | ~int | ~int8 | ~int16 | ~int32 | ~int64 | ~uint | ~uint8 | ~uint16 | ~uint32 | ~uint64 | ~uintptr | ~float32 | ~float64 | ~string
}

type vTape struct {
	Harness string            `json:"harness"`
	Params  map[string]int    `json:"params"`
	Nondet  map[string]uint64 `json:"nondet"`
	Strings map[string]string `json:"strings"`
}

type vLogEntry struct {
	Tag string `json:"tag"`
	Val string `json:"val"`
}

type vOutcome struct {
	Failed       []string    `json:"failed"`
	Covers       []string    `json:"covers"`
	Asserts      []string    `json:"asserts"`
	Log          []vLogEntry `json:"log"`
	Panic        string      `json:"panic,omitempty"`
	AssumeFailed bool        `json:"assume_failed,omitempty"`
	Missing      []string    `json:"missing,omitempty"`
	Fail         string      `json:"fail,omitempty"`
}

var (
	vmu      sync.Mutex
	vtape    *vTape
	vout     *vOutcome
	vseq     map[string]int
	vstart   time.Time
	vbaseG   int
	vmonMu   sync.Mutex
	vtimerWG sync.WaitGroup
)

type vAssumeFailed struct{}

func vReset(t *vTape) {
	vtape = t
	vout = &vOutcome{}
	vseq = map[string]int{}
	vstart = time.Now()
	vbaseG = runtime.NumGoroutine() + 1 // + the goroutine the harness itself runs on
	vErrSeq = 0
}

func vSeqKey(label string) string {
	vmu.Lock()
	defer vmu.Unlock()
	n := vseq[label]
	vseq[label] = n + 1
	return label + "#" + strconv.Itoa(n)
}

func vFromTape[T vScalar](key string) T {
	var z T
	rv := reflect.ValueOf(&z).Elem()
	vmu.Lock()
	bits, ok := vtape.Nondet[key]
	str, sok := vtape.Strings[key]
	if !ok && !sok {
		vout.Missing = append(vout.Missing, key)
	}
	vmu.Unlock()
	switch rv.Kind() {
	case reflect.Bool:
		rv.SetBool(bits != 0)
	case reflect.Int, reflect.Int8, reflect.Int16, reflect.Int32, reflect.Int64:
		switch rv.Type().Size() {
		case 1:
			rv.SetInt(int64(int8(bits)))
		case 2:
			rv.SetInt(int64(int16(bits)))
		case 4:
			rv.SetInt(int64(int32(bits)))
		default:
			rv.SetInt(int64(bits))
		}
	case reflect.Uint, reflect.Uint8, reflect.Uint16, reflect.Uint32, reflect.Uint64, reflect.Uintptr:
		switch rv.Type().Size() {
		case 1:
			rv.SetUint(uint64(uint8(bits)))
		case 2:
			rv.SetUint(uint64(uint16(bits)))
		case 4:
			rv.SetUint(uint64(uint32(bits)))
		default:
			rv.SetUint(bits)
		}
	case reflect.Float32:
		rv.SetFloat(float64(math.Float32frombits(uint32(bits))))
	case reflect.Float64:
		rv.SetFloat(math.Float64frombits(bits))
	case reflect.String:
		rv.SetString(str)
	}
	return z
}

func vNondet[T vScalar](label string) T { return vFromTape[T](vSeqKey(label)) }
func vNondetK[T vScalar](label string, k int) T {
	return vFromTape[T](vSeqKey(label + "@" + strconv.Itoa(k)))
}
func vChoice(label string, n int) int {
	v := vFromTape[int](vSeqKey(label))
	if v < 0 || v >= n {
		panic(vAssumeFailed{})
	}
	return v
}
func vConcrete(x int) int { return x }
func vParam(name string, def int) int {
	if v, ok := vtape.Params[name]; ok {
		return v
	}
	return def
}
func vAssume(c bool) {
	if !c {
		panic(vAssumeFailed{})
	}
}
func vAssert(c bool, label string) {
	vmu.Lock()
	defer vmu.Unlock()
	vout.Asserts = append(vout.Asserts, label)
	if !c {
		vout.Failed = append(vout.Failed, label)
	}
}
func vCover(label string) {
	vmu.Lock()
	vout.Covers = append(vout.Covers, label)
	vmu.Unlock()
}
func vUnwind(k int) {}
func vLog(tag string, v int) {
	vmu.Lock()
	vout.Log = append(vout.Log, vLogEntry{tag, strconv.Itoa(v)})
	vmu.Unlock()
}
func vLogS(tag string, s string) {
	vmu.Lock()
	vout.Log = append(vout.Log, vLogEntry{tag, s})
	vmu.Unlock()
}
func vPanics(f func()) (p bool) {
	defer func() {
		if r := recover(); r != nil {
			if _, ok := r.(vAssumeFailed); ok {
				panic(r)
			}
			p = true
		}
	}()
	f()
	return false
}

// vSame: identity for reference-like values, == for scalars (NaN same as NaN), field-wise for aggregates.
func vSame(a, b any) bool {
	return vSameRV(reflect.ValueOf(a), reflect.ValueOf(b))
}

// vSameDeep: like vSame, but maps and slices are compared by content (same nil-ness, same length,
// same keys, elements vSameDeep) instead of identity; pointers, channels and funcs stay identities.
func vSameDeep(a, b any) bool { return vSameRVd(reflect.ValueOf(a), reflect.ValueOf(b), true) }

func vSameRV(a, b reflect.Value) bool { return vSameRVd(a, b, false) }

func vSameRVd(a, b reflect.Value, deep bool) bool {
	if !a.IsValid() || !b.IsValid() {
		return a.IsValid() == b.IsValid()
	}
	if a.Type() != b.Type() {
		return false
	}
	switch a.Kind() {
	case reflect.Bool:
		return a.Bool() == b.Bool()
	case reflect.Int, reflect.Int8, reflect.Int16, reflect.Int32, reflect.Int64:
		return a.Int() == b.Int()
	case reflect.Uint, reflect.Uint8, reflect.Uint16, reflect.Uint32, reflect.Uint64, reflect.Uintptr:
		return a.Uint() == b.Uint()
	case reflect.Float32, reflect.Float64:
		x, y := a.Float(), b.Float()
		return x == y || (x != x && y != y)
	case reflect.Complex64, reflect.Complex128:
		return a.Complex() == b.Complex()
	case reflect.String:
		return a.String() == b.String()
	case reflect.Map:
		if !deep {
			return a.Pointer() == b.Pointer()
		}
		if a.IsNil() || b.IsNil() {
			return a.IsNil() == b.IsNil()
		}
		if a.Len() != b.Len() {
			return false
		}
		for _, k := range a.MapKeys() {
			bv := b.MapIndex(k)
			if !bv.IsValid() || !vSameRVd(a.MapIndex(k), bv, true) {
				return false
			}
		}
		return true
	case reflect.Pointer, reflect.UnsafePointer, reflect.Chan:
		return a.Pointer() == b.Pointer()
	case reflect.Func:
		if a.IsNil() || b.IsNil() {
			return a.IsNil() == b.IsNil()
		}
		return a.Pointer() == b.Pointer()
	case reflect.Slice:
		if a.IsNil() || b.IsNil() {
			return a.IsNil() == b.IsNil()
		}
		if a.Len() != b.Len() {
			return false
		}
		if deep {
			for i := 0; i < a.Len(); i++ {
				if !vSameRVd(a.Index(i), b.Index(i), true) {
					return false
				}
			}
			return true
		}
		return a.Len() == 0 || a.Pointer() == b.Pointer()
	case reflect.Interface:
		if a.IsNil() || b.IsNil() {
			return a.IsNil() == b.IsNil()
		}
		return vSameRVd(a.Elem(), b.Elem(), deep)
	case reflect.Struct:
		for i := 0; i < a.NumField(); i++ {
			if !vSameRVd(a.Field(i), b.Field(i), deep) {
				return false
			}
		}
		return true
	case reflect.Array:
		for i := 0; i < a.Len(); i++ {
			if !vSameRVd(a.Index(i), b.Index(i), deep) {
				return false
			}
		}
		return true
	}
	return false
}

func vSig(name string, v int) {}
func vYield()                 { runtime.Gosched() }
func vMon(f func()) {
	vJitter()
	vmonMu.Lock()
	f()
	vmonMu.Unlock()
	vJitter()
}

var vjitterOn = os.Getenv("VERIF_JITTER") != ""
var vjitterMu sync.Mutex
var vjitterState uint64 = uint64(time.Now().UnixNano()) | 1

// vJitter shakes the native schedule during stress replays of schedule-dependent findings.
func vJitter() {
	if !vjitterOn {
		return
	}
	vjitterMu.Lock()
	vjitterState ^= vjitterState << 13
	vjitterState ^= vjitterState >> 7
	vjitterState ^= vjitterState << 17
	r := vjitterState
	vjitterMu.Unlock()
	switch r % 4 {
	case 0:
		runtime.Gosched()
	case 1:
		time.Sleep(time.Duration(r%300) * time.Microsecond)
	}
}
func vMonC(class int, f func()) { vMon(f) }
func vBlockUntil(f func() bool) {
	deadline := time.Now().Add(1500 * time.Millisecond)
	for {
		vmonMu.Lock()
		ok := f()
		vmonMu.Unlock()
		if ok {
			return
		}
		if time.Now().After(deadline) {
			vmu.Lock()
			if vout.Fail == "" {
				vout.Fail = "vBlockUntil timed out: the awaited condition never became true (deadlock)"
			}
			vmu.Unlock()
			select {} // stay blocked; the replay watchdog reports
		}
		time.Sleep(200 * time.Microsecond)
	}
}
func vBlockUntilAny(f func() bool) { vBlockUntil(f) }
func vQuiesce() int {
	deadline := time.Now().Add(500 * time.Millisecond)
	for time.Now().Before(deadline) {
		if runtime.NumGoroutine() <= vbaseG {
			return 0
		}
		time.Sleep(time.Millisecond)
	}
	return runtime.NumGoroutine() - vbaseG
}
func vThreadID() int {
	var buf [64]byte
	n := runtime.Stack(buf[:], false)
	f := strings.Fields(string(buf[:n]))
	if len(f) >= 2 {
		id, _ := strconv.Atoi(f[1])
		return id
	}
	return -1
}
func vThreadIdle(t int) bool { time.Sleep(2 * time.Millisecond); return true }
func vNow() time.Duration    { return time.Since(vstart) }
func vAfterFunc(d time.Duration, f func()) {
	vtimerWG.Add(1)
	time.AfterFunc(d, func() { defer vtimerWG.Done(); f() })
}
func vGuardedBy(mu *sync.RWMutex, data *map[string]any) {}
func vTimers() int                                       { return -1 }
func vSections(mu *sync.RWMutex) int                     { return -1 }
func vPick(idx int, opts ...any) any { return opts[idx] }
func vRaceChecked(p any) {}
func vThreadsCreated() int { return runtime.NumGoroutine() - vbaseG }
func vLockFree(mu *sync.RWMutex) bool {
	if mu.TryLock() {
		mu.Unlock()
		return true
	}
	return false
}
func vFail(msg string) {
	vmu.Lock()
	vout.Fail = msg
	vmu.Unlock()
	panic(vAssumeFailed{})
}

var _ = fmt.Sprint
