//go:build verif && verifnative

package flyt

import (
	"encoding/json"
	"fmt"
	"os"
	"testing"
	"time"
)

// TestVReplay runs one harness under the tape in $VERIF_TAPE and prints the outcome as JSON.
func TestVReplay(t *testing.T) {
	path := os.Getenv("VERIF_TAPE")
	if path == "" {
		t.Skip("no tape")
	}
	b, err := os.ReadFile(path)
	if err != nil {
		t.Fatal(err)
	}
	var tape vTape
	if err := json.Unmarshal(b, &tape); err != nil {
		t.Fatal(err)
	}
	h := vHarnesses[tape.Harness]
	if h == nil {
		t.Fatalf("unknown harness %s", tape.Harness)
	}
	vReset(&tape)
	done := make(chan struct{})
	go func() {
		defer close(done)
		defer func() {
			if r := recover(); r != nil {
				if _, ok := r.(vAssumeFailed); ok {
					vmu.Lock()
					vout.AssumeFailed = true
					vmu.Unlock()
					return
				}
				vmu.Lock()
				vout.Panic = fmt.Sprint(r)
				vmu.Unlock()
			}
		}()
		h()
	}()
	select {
	case <-done:
	case <-time.After(5 * time.Second):
		vmu.Lock()
		if vout.Fail == "" {
			vout.Fail = "watchdog: harness did not terminate in 5s (deadlock?)"
		} else {
			vout.Fail = "watchdog: " + vout.Fail
		}
		vmu.Unlock()
	}
	vmu.Lock()
	out, _ := json.Marshal(vout)
	vmu.Unlock()
	fmt.Printf("\nVOUT %s\n", out)
}
