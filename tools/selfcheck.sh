#!/bin/sh
# setup-time sanity: the engine binary runs and both solvers answer
cd "$(dirname "$0")/.." || exit 1
test -x bin/flytsym || exit 1
echo '(check-sat)' | z3 -in >/dev/null || exit 1
exit 0
