#!/bin/sh
# setup-time sanity: solvers answer, and the engine agrees with the repository's own tests
# (conformance harnesses: six repo tests ported as nondeterminism-free harnesses, run in the engine and natively)
cd "$(dirname "$0")/.." || exit 1
test -x bin/flytsym || exit 1
echo '(check-sat)' | z3 -in >/dev/null || exit 1
echo '(set-logic ALL)(check-sat)' | cvc5 --incremental --lang=smt2 >/dev/null 2>&1 || exit 1
./check _conformance quick >/dev/null 2>&1 || { echo "conformance self-check failed"; ./check _conformance quick | tail -5; exit 1; }
rm -f evidence/_conformance.json
exit 0
