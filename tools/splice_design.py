#!/usr/bin/env python3
"""Splice tools/asbuilt.md into DESIGN.md (between the ASBUILT markers, or before §0 the first time)."""
import re
p='/verif/DESIGN.md'
s=open(p).read()
a=open('/verif/tools/asbuilt.md').read()
if '<!-- ASBUILT-BEGIN -->' in s:
    s=re.sub(r'<!-- ASBUILT-BEGIN -->.*?<!-- ASBUILT-END -->\n', lambda m: a, s, flags=re.S)
else:
    s=s.replace('''Status: design only (no framework code yet). This document fixes, per property,
what is executed symbolically, what the solver decides, against which oracle,
inside which bounds, what lies outside them, and what it costs.''','''Status: **built**. §A ("As built") is the authoritative description of what exists in /verif
today, with measured numbers; §0–§9 and the appendices are the original design, kept because the
reasoning (oracles, hazards, stubs, algorithms) still applies — where the implementation deviates
from a design paragraph, §A says so and §A wins.''')
    s=s.replace('Contents\n\n0. Summary table','Contents\n\nA. As built: engine, checks, findings, false alarms, what catches what (authoritative)\n0. Summary table')
    marker='---------------------------------------------------------------------------\n\n## 0. Summary table'
    assert marker in s
    s=s.replace(marker, a+'\n'+marker,1)
open(p,'w').write(s)
print('spliced')
