#!/usr/bin/env python3
"""Run every harness at its thorough bounds on its own, with a time cap, and print paths / wall time.
Used to choose registered thorough bounds (only bounds that finish cleanly are registered)."""
import json, subprocess, sys, time, re, os
c=json.load(open('/verif/checks.json'))
cap=int(os.environ.get('CAP','600'))
only=sys.argv[1:]
for pid,spec in c.items():
    if pid.startswith('_') or (only and pid not in only): continue
    for h in spec['harnesses']:
        if h.get('only')=='quick': continue
        p=dict(h.get('quick') or {}); p.update(h.get('thorough') or {})
        args=['bin/flytsym','run','-harness',h['fn'],'-timeout',str(cap)]
        args+=['-workers','16']
        if not h.get('no_symmetry'): args+=['-symmetry']
        for k,v in p.items(): args+=['-p','%s=%d'%(k,v)]
        t=time.time()
        r=subprocess.run(args,cwd='/verif',capture_output=True,text=True)
        out=r.stdout+r.stderr
        m=re.search(r'paths=(\d+)',out)
        to='TIMEOUT' if 'INCONCLUSIVE' in out else ''
        print(pid,h['fn'],p,'paths',m.group(1) if m else '?','wall %.0fs'%(time.time()-t),to,'BE' if h.get('best_effort') else '',flush=True)
