#!/usr/bin/env python3
"""addh.py <prop> '<json harness entry>' [first]: add (or replace) a harness entry in checks.json."""
import json, sys
c=json.load(open('/verif/checks.json'))
prop=sys.argv[1]; ent=json.loads(sys.argv[2])
hs=c[prop]['harnesses']
key=lambda h:(h['fn'],json.dumps(h.get('quick',{}),sort_keys=True))
hs[:]=[h for h in hs if key(h)!=key(ent)]
if len(sys.argv)>3 and sys.argv[3]=='first': hs.insert(0,ent)
else: hs.append(ent)
json.dump(c,open('/verif/checks.json','w'),indent=1)
print(prop,[h['fn'] for h in hs])
