#!/usr/bin/env python3
"""Regenerate MANIFEST.json from checks.json + tools/manifest_texts.json (keeps the manifest valid at all times)."""
import json, os
root = os.path.dirname(os.path.dirname(os.path.abspath(__file__)))
checks = json.load(open(os.path.join(root, "checks.json")))
texts = json.load(open(os.path.join(root, "tools", "manifest_texts.json")))
props = [json.loads(l)["id"] for l in open(os.path.join(root, "properties.jsonl")) if l.strip()]
m = {
    "version": 1,
    "setup_cmd": "cd engine && GOFLAGS=-mod=mod GOPROXY=off GOSUMDB=off GOTOOLCHAIN=local go build -o ../bin/flytsym . && cd .. && ./tools/selfcheck.sh",
    "hooks": {
        "guard": "verif",
        "enable": "no source changes in /repo: harnesses and intrinsics enter the build only through -overlay / packages.Config.Overlay as /repo/zz_verif_*.go under //go:build verif",
        "baseline_off_cmd": "cd /repo && GOFLAGS=-mod=mod GOPROXY=off go test -vet=off -count=1 -timeout 25m ./...",
        "source_commits": [],
        "add_only": True,
    },
    "engines": [{
        "name": "flytsym", "path": "engine/",
        "serves_properties": sorted(k for k in checks.keys() if not k.startswith("_")),
        "kind_free_text": "symbolic executor for the go/ssa form of /repo (regenerated every run) -> SMT-LIB2 over z3 -in; forks on symbolic branches and scheduler choices (sleep sets), assertions are solver queries; counterexamples and witnesses are replayed natively with go test -overlay",
    }],
    "checks": [],
    "not_applicable": [],
    "notes": texts.get("_notes", ""),
}
for p in props:
    if p in checks:
        t = texts.get(p, {})
        spec = checks[p]
        bounds = "; ".join("%s: %s" % (k, v) for k, v in spec.get("bounds", {}).items())
        outside = "; ".join(spec.get("outside_bounds", []))
        harn = ", ".join(sorted(set(h["fn"] for h in spec["harnesses"])))
        m["checks"].append({
            "property_id": p,
            "quick_cmd": "./check %s quick" % p,
            "thorough_cmd": "./check %s thorough" % p,
            "evidence_file": "evidence/%s.json" % p,
            "replay_cmd_template": "./check replay {path}",
            "engine": "flytsym",
            "level_claimed": {"category": "model_checking",
                              "text": t.get("level_text", "bounded symbolic model checking of the go/ssa form of /repo (regenerated each run): the harnesses " + harn + " are executed symbolically; every assertion is an SMT query (z3, sampled cross-check with cvc5) over all values of the symbolic inputs on every explored path and, for concurrent harnesses, every schedule at synchronisation granularity. Bounds - " + bounds + ". Outside the bounds - " + outside + ". Counterexamples are re-executed concretely in the engine and replayed natively (go test -overlay) before being reported; passing witness paths are replayed natively on every run."),
                              "design_ref": t.get("design_ref", "DESIGN.md §A.4 (" + p + " oracle as implemented), §4 " + p + " (design)")},
            "level_note": t.get("level_note", "trusted: go/ssa construction; the engine's SSA semantics and environment stubs (validated on every run by native replays of witness paths and at setup by six ported repository tests); z3. Assumed: " + "; ".join(spec.get("assumptions", [])[:6])),
            "technique": t.get("technique", "solver-based bounded checking of the real code: symbolic execution of go/ssa -> SMT-LIB2 (z3; cvc5 cross-check), schedules forked with sleep sets; native replay"),
        })
    else:
        m["not_applicable"].append({"property_id": p, "reason": texts.get(p, {}).get("na_reason", "check not yet built in this session (engine stage pending); see DESIGN.md §8")})
json.dump(m, open(os.path.join(root, "MANIFEST.json"), "w"), indent=1)
print("MANIFEST.json: %d checks, %d not_applicable" % (len(m["checks"]), len(m["not_applicable"])))
