#!/usr/bin/env python3
"""Rewrite the harness column (from checks.json) and the last column of the §A.4 table of tools/asbuilt.md (quick-tier paths and wall time) from
the evidence files of the last quick run on the clean tree."""
import json, re
CH=json.load(open('/verif/checks.json'))
def harness_list(pid):
    names=[]
    for h in CH[pid]['harnesses']:
        fn=h['fn']; short=fn[len('VH_'+pid+'_'):] if fn.startswith('VH_'+pid+'_') else fn[3:].replace('_','.',1)
        if short not in names: names.append(short)
    return ', '.join(names)
p='/verif/tools/asbuilt.md'; s=open(p).read()
def fmt(n):
    return ('%.1f k'%(n/1000)) if n>=1000 else str(n)
out=[]
for line in s.split('\n'):
    m=re.match(r'^\| (C\d\d) \|', line)
    if m and line.count('|')>=5:
        pid=m.group(1)
        try:
            e=json.load(open('/verif/evidence/%s.json'%pid))
            if e['tier']=='quick':
                cells=line.split('|')
                cells[2]=' '+harness_list(pid)+' '
                nh=len(e['coverage'].get('harnesses',[]))
                cells[-2]=' %d harness runs → %s paths, %s solver queries, %.0f s '%(nh, fmt(e['coverage']['states']), fmt(e['coverage'].get('queries',{}).get('total',0)), e['wall_s'])
                line='|'.join(cells)
        except Exception as ex:
            pass
    out.append(line)
open(p,'w').write('\n'.join(out))
print('A.4 updated')
