#!/bin/sh
# confirm_seeded.sh <id> <name>: confirm a sub-agent's seeded change in its scratch worktree /tmp/wt/<id>:
# suite green with the change, demo fails with it, demo passes without it. Prints a JSON fragment.
export GOFLAGS=-mod=mod GOPROXY=off GOSUMDB=off GOTOOLCHAIN=local
id=$1; wt=/tmp/wt/$id; demo=/tmp/wt/$id-demo
cd $wt || exit 2
git checkout -q -- . ; git clean -fdq . 
git apply $demo/patch.diff || { echo "patch does not apply"; exit 2; }
go build ./... || { echo "build fails"; exit 2; }
go test -vet=off -count=1 . >/tmp/wt/$id.suite.log 2>&1; suite=$?
cp $demo/demo_test.go $wt/zz_demo_test.go
# run exactly the test functions the demo file defines
pat=$(grep -h '^func Test' $demo/demo_test.go | sed 's/^func \(Test[A-Za-z0-9_]*\).*/\1/' | paste -sd'|')
go test -vet=off -count=1 -run "^($pat)\$" . >/tmp/wt/$id.demo_with.log 2>&1; with=$?
git checkout -q -- . 
go test -vet=off -count=1 -run "^($pat)\$" . >/tmp/wt/$id.demo_without.log 2>&1; without=$?
rm -f $wt/zz_demo_test.go
git apply $demo/patch.diff
echo "{\"suite_with_change_exit\": $suite, \"demo_with_change_exit\": $with, \"demo_without_change_exit\": $without}"
