#!/usr/bin/env python3
"""store_seed.py <Cxx> <sNN-slug> <round> <change> <needs>: copy a confirmed sub-agent change from /tmp/wt/<Cxx>-demo into seeded/."""
import sys, os, shutil, json, subprocess
cid, slug, rnd, change, needs = sys.argv[1:6]
NOTES={4:"round 4: the author was asked for feature interactions and less-travelled entry points (re-used instances, flows with retry settings, unusual but legal values, state surviving between runs)",
 11:"round 11: half round (ten properties), as rounds 6-10 with ten earlier ideas per property excluded",
 10:"round 10: as rounds 6-9 (free choice, nine earlier ideas per property excluded)",
 9:"round 9: as rounds 6-8 (free choice, eight earlier ideas per property excluded)",
 8:"round 8: as rounds 6 and 7 (free choice, seven earlier ideas per property excluded)",
 7:"round 7: as round 6 (free choice, six earlier ideas per property excluded)",
 6:"round 6: the author was told that everything on the used-list had been caught in the end and asked for whatever could still slip through (least-attended clauses and entry points, call order, n-th call, aliasing, leftovers)",
 5:"round 5: the author was asked for value-dependent misbehaviour (numeric thresholds and overflow, floating-point corners, textual shape of strings, relations between values, one dynamic type among many)"}
src='/tmp/wt/%s-demo'%cid; dst='/verif/seeded/'+slug
os.makedirs(dst, exist_ok=True)
for f in ('patch.diff','demo_test.go','README.txt'):
    shutil.copy(os.path.join(src,f), dst)
conf=subprocess.run(['sh','/verif/tools/confirm_seeded.sh',cid],capture_output=True,text=True).stdout.strip().splitlines()[-1]
c=json.loads(conf)
assert c=={"suite_with_change_exit": 0, "demo_with_change_exit": 1, "demo_without_change_exit": 0}, c
base=subprocess.run(['git','-C','/repo','rev-parse','--short','HEAD'],capture_output=True,text=True).stdout.strip()
meta={"id":slug,"round":int(rnd),"note":NOTES.get(int(rnd),""),
 "breaks_property":cid,"change":change,"needs_to_manifest":needs,"base_commit":base,
 "confirmed":{"suite_with_change":"pass (go test -vet=off -count=1 .)","demo_with_change":"FAIL","demo_without_change":"pass","how":"tools/confirm_seeded.sh in the scratch worktree /tmp/wt/"+cid},
 "checks":"MISSED at first run",
 "apply":"git -C /repo apply /verif/seeded/%s/patch.diff ; ./check %s quick ; git -C /repo checkout -- ."%(slug,cid)}
json.dump(meta,open(os.path.join(dst,'meta.json'),'w'),indent=1)
print('stored',slug)
