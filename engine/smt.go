package main

// One long-lived solver process per worker (z3 -in / cvc5 --incremental), driven over a pipe.
// Every reply is delimited by an echo marker; any "(error" line makes the query inconclusive.

import (
	"bufio"
	"fmt"
	"io"
	"os/exec"
	"strings"
	"time"
)

type Solver struct {
	name   string
	cmd    *exec.Cmd
	in     io.WriteCloser
	out    *bufio.Reader
	buf    strings.Builder
	Stats  SolverStats
	logW   io.Writer
	dead   bool
	tmoMs  int
}

type SolverStats struct {
	Sat, Unsat, Unknown, Errors int
	Time                        time.Duration
}

func NewSolver(kind string, timeoutMs int) (*Solver, error) {
	var cmd *exec.Cmd
	switch kind {
	case "z3":
		cmd = exec.Command("z3", "-in", fmt.Sprintf("-t:%d", timeoutMs))
	case "z3-new":
		cmd = exec.Command("z3-new", "-in", fmt.Sprintf("-t:%d", timeoutMs))
	case "cvc5":
		cmd = exec.Command("cvc5", "--incremental", "--lang=smt2", "--produce-models", fmt.Sprintf("--tlimit-per=%d", timeoutMs))
	default:
		return nil, fmt.Errorf("unknown solver %s", kind)
	}
	in, err := cmd.StdinPipe()
	if err != nil {
		return nil, err
	}
	out, err := cmd.StdoutPipe()
	if err != nil {
		return nil, err
	}
	cmd.Stderr = cmd.Stdout
	if err := cmd.Start(); err != nil {
		return nil, err
	}
	s := &Solver{name: kind, cmd: cmd, in: in, out: bufio.NewReaderSize(out, 1<<16), tmoMs: timeoutMs}
	s.send("(set-option :produce-models true)")
	if kind == "cvc5" {
		s.send("(set-logic ALL)")
	}
	if _, err := s.roundTrip(); err != nil {
		return nil, err
	}
	return s, nil
}

func (s *Solver) Close() {
	if s == nil || s.dead {
		return
	}
	s.dead = true
	s.in.Close()
	s.cmd.Process.Kill()
	s.cmd.Wait()
}

func (s *Solver) send(line string) {
	s.buf.WriteString(line)
	s.buf.WriteByte('\n')
}

// roundTrip flushes buffered commands and returns all output lines up to the marker.
func (s *Solver) roundTrip() ([]string, error) {
	s.buf.WriteString("(echo \"@@END\")\n")
	txt := s.buf.String()
	s.buf.Reset()
	if s.logW != nil {
		io.WriteString(s.logW, txt)
	}
	if _, err := io.WriteString(s.in, txt); err != nil {
		s.dead = true
		return nil, err
	}
	var lines []string
	for {
		l, err := s.out.ReadString('\n')
		if err != nil {
			s.dead = true
			return lines, fmt.Errorf("solver %s died: %v (so far %v)", s.name, err, lines)
		}
		l = strings.TrimRight(l, "\r\n")
		if l == "@@END" || l == "\"@@END\"" {
			break
		}
		if l != "" {
			lines = append(lines, l)
		}
	}
	return lines, nil
}

// define emits declarations/definitions for every not-yet-sent subterm of t (at the current scope).
func (s *Solver) define(ts *TermStore, t *Term) {
	if t.IsConst || t.sent {
		return
	}
	// iterative post-order to avoid deep recursion on long chains
	type fr struct {
		t *Term
		i int
	}
	st := []fr{{t, 0}}
	for len(st) > 0 {
		f := &st[len(st)-1]
		if f.t.sent || f.t.IsConst {
			st = st[:len(st)-1]
			continue
		}
		if f.i < len(f.t.Args) {
			a := f.t.Args[f.i]
			f.i++
			if !a.sent && !a.IsConst {
				st = append(st, fr{a, 0})
			}
			continue
		}
		x := f.t
		st = st[:len(st)-1]
		x.sent = true
		switch x.Op {
		case "var":
			s.send(fmt.Sprintf("(declare-const %s %s)", x.Name, x.S.SMT()))
		case "uf":
			d := ts.ufs[x.Name]
			if !d.sent {
				d.sent = true
				as := make([]string, len(d.args))
				for i, a := range d.args {
					as[i] = a.SMT()
				}
				s.send(fmt.Sprintf("(declare-fun %s (%s) %s)", d.name, strings.Join(as, " "), d.ret.SMT()))
			}
			s.send(fmt.Sprintf("(define-fun t%d () %s %s)", x.id, x.S.SMT(), x.bodySMT()))
		default:
			s.send(fmt.Sprintf("(define-fun t%d () %s %s)", x.id, x.S.SMT(), x.bodySMT()))
		}
	}
}

type SatResult int

const (
	Unsat SatResult = iota
	Sat
	Unknown
)

func (r SatResult) String() string { return [...]string{"unsat", "sat", "unknown"}[r] }

// PathSolver binds a Solver to one path: a single push scope holding the path condition.
type PathSolver struct {
	s      *Solver
	ts     *TermStore
	nsent  int // number of PC terms already asserted
	opened bool
}

func (ps *PathSolver) open() {
	if !ps.opened {
		ps.s.send("(push 1)")
		ps.opened = true
	}
}

// Finish pops the path scope.
func (ps *PathSolver) Finish() {
	if ps.s == nil {
		return
	}
	if ps.opened && !ps.s.dead {
		ps.s.send("(pop 1)")
		ps.s.roundTrip()
		ps.opened = false
	}
}

// Check decides satisfiability of pc ∧ extra. When wantModel it also returns values of vars.
func (ps *PathSolver) Check(pc []*Term, extra *Term, wantModel []*Term) (SatResult, map[string]uint64, string) {
	s := ps.s
	if s == nil || s.dead {
		return Unknown, nil, "solver dead"
	}
	ps.open()
	for ; ps.nsent < len(pc); ps.nsent++ {
		t := pc[ps.nsent]
		s.define(ps.ts, t)
		s.send("(assert " + t.ref() + ")")
	}
	if extra != nil {
		s.define(ps.ts, extra)
	}
	for _, v := range wantModel {
		s.define(ps.ts, v)
	}
	s.send("(push 1)")
	if extra != nil {
		s.send("(assert " + extra.ref() + ")")
	}
	s.send("(check-sat)")
	t0 := time.Now()
	lines, err := s.roundTrip()
	if err != nil {
		s.Stats.Errors++
		return Unknown, nil, err.Error()
	}
	res := Unknown
	why := ""
	for _, l := range lines {
		if strings.Contains(l, "(error") {
			s.Stats.Errors++
			why = l
			res = Unknown
			goto done
		}
	}
	if len(lines) > 0 {
		switch lines[len(lines)-1] {
		case "sat":
			res = Sat
		case "unsat":
			res = Unsat
		default:
			why = strings.Join(lines, " ")
		}
	}
done:
	var model map[string]uint64
	if res == Sat && len(wantModel) > 0 {
		model = map[string]uint64{}
		// ask in chunks; FP values are requested through their bit pattern
		for _, v := range wantModel {
			switch v.S.K {
			case SFP:
				// (fp.to_ieee_bv is not standard); use a fresh bv constrained? simpler: get-value then parse fp literal
				s.send("(get-value (" + v.ref() + "))")
			default:
				s.send("(get-value (" + v.ref() + "))")
			}
		}
		ml, err := s.roundTrip()
		if err == nil {
			joined := strings.Join(ml, " ")
			vals := parseGetValues(joined)
			if len(vals) == len(wantModel) {
				for i, v := range wantModel {
					key := v.Name
					if key == "" {
						key = v.ref()
					}
					model[key] = vals[i]
				}
			} else {
				why = "model parse: " + joined
				res = Unknown
			}
		}
	}
	s.send("(pop 1)")
	s.Stats.Time += time.Since(t0)
	switch res {
	case Sat:
		s.Stats.Sat++
	case Unsat:
		s.Stats.Unsat++
	default:
		s.Stats.Unknown++
	}
	return res, model, why
}

// parseGetValues extracts the value literals from a concatenation of "((name value))" replies.
func parseGetValues(s string) []uint64 {
	var out []uint64
	i := 0
	for i < len(s) {
		// find "(("
		j := strings.Index(s[i:], "((")
		if j < 0 {
			break
		}
		i += j + 2
		// skip the name expression (balanced)
		i = skipSexp(s, i)
		for i < len(s) && s[i] == ' ' {
			i++
		}
		st := i
		i = skipSexp(s, i)
		out = append(out, parseLiteral(s[st:i]))
		// skip "))"
		for i < len(s) && (s[i] == ')' || s[i] == ' ') {
			i++
		}
	}
	return out
}

func skipSexp(s string, i int) int {
	if i >= len(s) {
		return i
	}
	if s[i] != '(' {
		for i < len(s) && s[i] != ' ' && s[i] != ')' {
			i++
		}
		return i
	}
	depth := 0
	for i < len(s) {
		if s[i] == '(' {
			depth++
		} else if s[i] == ')' {
			depth--
			if depth == 0 {
				return i + 1
			}
		}
		i++
	}
	return i
}

func parseLiteral(l string) uint64 {
	l = strings.TrimSpace(l)
	switch {
	case l == "true":
		return 1
	case l == "false":
		return 0
	case strings.HasPrefix(l, "#x"):
		var v uint64
		fmt.Sscanf(l[2:], "%x", &v)
		return v
	case strings.HasPrefix(l, "#b"):
		var v uint64
		for _, c := range l[2:] {
			v = v<<1 | uint64(c-'0')
		}
		return v
	case strings.HasPrefix(l, "(fp "):
		// (fp #b0 #b10000000000 #x0000000000000)
		parts := strings.Fields(strings.Trim(l, "()"))
		if len(parts) == 4 {
			bits := ""
			for _, p := range parts[1:] {
				if strings.HasPrefix(p, "#b") {
					bits += p[2:]
				} else if strings.HasPrefix(p, "#x") {
					for _, c := range p[2:] {
						var d uint64
						fmt.Sscanf(string(c), "%x", &d)
						bits += fmt.Sprintf("%04b", d)
					}
				}
			}
			var v uint64
			for _, c := range bits {
				v = v<<1 | uint64(c-'0')
			}
			return v
		}
	case strings.HasPrefix(l, "(_ NaN"):
		if strings.Contains(l, " 8 24") {
			return 0x7fc00000
		}
		return 0x7ff8000000000001
	case strings.HasPrefix(l, "(_ +oo"):
		if strings.Contains(l, " 8 24") {
			return 0x7f800000
		}
		return 0x7ff0000000000000
	case strings.HasPrefix(l, "(_ -oo"):
		if strings.Contains(l, " 8 24") {
			return 0xff800000
		}
		return 0xfff0000000000000
	case strings.HasPrefix(l, "(_ +zero"):
		return 0
	case strings.HasPrefix(l, "(_ -zero"):
		if strings.Contains(l, " 8 24") {
			return 0x80000000
		}
		return 0x8000000000000000
	case strings.HasPrefix(l, "(_ bv"):
		var v uint64
		var w int
		fmt.Sscanf(l, "(_ bv%d %d)", &v, &w)
		return v
	}
	return 0
}
