package main

// Term layer: hash-consed SMT terms with constant folding.
// Sorts: Bool, BitVec(w), FloatingPoint(32|64). Strings are interned ids (BV32).

import (
	"fmt"
	"math"
	"strings"
)

type SortKind uint8

const (
	SBool SortKind = iota
	SBV
	SFP
)

type Sort struct {
	K SortKind
	W int
}

var (
	BoolSort = Sort{SBool, 0}
	BV64     = Sort{SBV, 64}
	BV32     = Sort{SBV, 32}
	StrSort  = Sort{SBV, 32}
)

func (s Sort) SMT() string {
	switch s.K {
	case SBool:
		return "Bool"
	case SBV:
		return fmt.Sprintf("(_ BitVec %d)", s.W)
	case SFP:
		if s.W == 32 {
			return "(_ FloatingPoint 8 24)"
		}
		return "(_ FloatingPoint 11 53)"
	}
	return "?"
}

type Term struct {
	Op      string
	S       Sort
	Args    []*Term
	C       uint64 // constant payload (bv value, bool 0/1, fp bits)
	IsConst bool
	Name    string // for vars and UF applications
	P       [2]int // parameters (extract hi/lo, extend amount)
	id      int
	sent    bool // defined in the solver for the current path
}

// TermStore hash-conses terms for one path execution.
type TermStore struct {
	ktab  map[termKey]*Term
	tab   map[string]*Term
	next  int
	vars  []*Term          // declared variables in creation order
	ufs   map[string]*ufDecl
	ufOrd []string
	// in-range side conditions of the float->int conversions built so far (used to prefer
	// counterexamples whose conversions are specified, hence replayable natively)
	rangeCons []*Term
	concrete  bool // concrete re-execution: unspecified conversions take the amd64 results
}

type ufDecl struct {
	name string
	args []Sort
	ret  Sort
	sent bool
}

func NewTermStore() *TermStore {
	return &TermStore{tab: map[string]*Term{}, ktab: map[termKey]*Term{}, ufs: map[string]*ufDecl{}}
}

func mask(w int) uint64 {
	if w >= 64 {
		return ^uint64(0)
	}
	return (uint64(1) << uint(w)) - 1
}

type termKey struct {
	op      string
	name    string
	sk      SortKind
	w       int
	p0, p1  int
	c       uint64
	isConst bool
	n       int
	a0, a1, a2 int
}

func (ts *TermStore) mk(op string, s Sort, p [2]int, name string, c uint64, isConst bool, args ...*Term) *Term {
	if len(args) <= 3 {
		k := termKey{op: op, name: name, sk: s.K, w: s.W, p0: p[0], p1: p[1], c: c, isConst: isConst, n: len(args)}
		switch len(args) {
		case 3:
			k.a2 = args[2].id
			fallthrough
		case 2:
			k.a1 = args[1].id
			fallthrough
		case 1:
			k.a0 = args[0].id
		}
		if t, ok := ts.ktab[k]; ok {
			return t
		}
		ts.next++
		t := &Term{Op: op, S: s, Args: args, C: c, IsConst: isConst, Name: name, P: p, id: ts.next}
		ts.ktab[k] = t
		return t
	}
	var sb strings.Builder
	sb.WriteString(op)
	fmt.Fprintf(&sb, "|%d.%d|%d.%d|%s|", s.K, s.W, p[0], p[1], name)
	if isConst {
		fmt.Fprintf(&sb, "c%x", c)
	}
	for _, a := range args {
		fmt.Fprintf(&sb, ",%d", a.id)
	}
	k := sb.String()
	if t, ok := ts.tab[k]; ok {
		return t
	}
	ts.next++
	t := &Term{Op: op, S: s, Args: args, C: c, IsConst: isConst, Name: name, P: p, id: ts.next}
	ts.tab[k] = t
	return t
}

func (ts *TermStore) Bool(b bool) *Term {
	if b {
		return ts.mk("const", BoolSort, [2]int{}, "", 1, true)
	}
	return ts.mk("const", BoolSort, [2]int{}, "", 0, true)
}

func (ts *TermStore) BV(w int, v uint64) *Term {
	return ts.mk("const", Sort{SBV, w}, [2]int{}, "", v&mask(w), true)
}

func (ts *TermStore) FPBits(w int, bits uint64) *Term {
	return ts.mk("const", Sort{SFP, w}, [2]int{}, "", bits, true)
}

func (ts *TermStore) Var(name string, s Sort) *Term {
	t := ts.mk("var", s, [2]int{}, name, 0, false)
	if !t.sentVarListed() {
		ts.vars = append(ts.vars, t)
		t.P[0] = 1
	}
	return t
}

func (t *Term) sentVarListed() bool { return t.P[0] == 1 }

func (t *Term) IsTrue() bool  { return t.IsConst && t.S.K == SBool && t.C == 1 }
func (t *Term) IsFalse() bool { return t.IsConst && t.S.K == SBool && t.C == 0 }

func (ts *TermStore) Not(a *Term) *Term {
	if a.IsConst {
		return ts.Bool(a.C == 0)
	}
	if a.Op == "not" {
		return a.Args[0]
	}
	return ts.mk("not", BoolSort, [2]int{}, "", 0, false, a)
}

func (ts *TermStore) And(a, b *Term) *Term {
	if a.IsConst {
		if a.C == 0 {
			return a
		}
		return b
	}
	if b.IsConst {
		if b.C == 0 {
			return b
		}
		return a
	}
	if a == b {
		return a
	}
	return ts.mk("and", BoolSort, [2]int{}, "", 0, false, a, b)
}

func (ts *TermStore) Or(a, b *Term) *Term {
	if a.IsConst {
		if a.C == 1 {
			return a
		}
		return b
	}
	if b.IsConst {
		if b.C == 1 {
			return b
		}
		return a
	}
	if a == b {
		return a
	}
	return ts.mk("or", BoolSort, [2]int{}, "", 0, false, a, b)
}

func (ts *TermStore) Ite(c, a, b *Term) *Term {
	if c.IsConst {
		if c.C == 1 {
			return a
		}
		return b
	}
	if a == b {
		return a
	}
	if a.S.K == SBool && a.IsConst && b.IsConst {
		if a.C == 1 && b.C == 0 {
			return c
		}
		if a.C == 0 && b.C == 1 {
			return ts.Not(c)
		}
	}
	return ts.mk("ite", a.S, [2]int{}, "", 0, false, c, a, b)
}

func (ts *TermStore) Eq(a, b *Term) *Term {
	if a.S != b.S {
		panic(fmt.Sprintf("Eq sort mismatch %v %v (%s vs %s)", a.S, b.S, a.Op, b.Op))
	}
	if a.S.K == SFP {
		// bitwise-identity is not Go's ==; callers use FPEq. Here: structural equality (SMT =).
		if a.IsConst && b.IsConst {
			return ts.Bool(a.C == b.C)
		}
		if a == b {
			return ts.Bool(true)
		}
		return ts.mk("=", BoolSort, [2]int{}, "", 0, false, a, b)
	}
	if a == b {
		return ts.Bool(true)
	}
	if a.IsConst && b.IsConst {
		return ts.Bool(a.C == b.C)
	}
	if a.S.K == SBool {
		if a.IsConst {
			if a.C == 1 {
				return b
			}
			return ts.Not(b)
		}
		if b.IsConst {
			if b.C == 1 {
				return a
			}
			return ts.Not(a)
		}
	}
	if a.id > b.id {
		a, b = b, a
	}
	return ts.mk("=", BoolSort, [2]int{}, "", 0, false, a, b)
}

func sext(v uint64, w int) int64 {
	if w >= 64 {
		return int64(v)
	}
	sh := uint(64 - w)
	return int64(v<<sh) >> sh
}

// BVBin builds a binary bit-vector operation (result sort = operand sort).
func (ts *TermStore) BVBin(op string, a, b *Term) *Term {
	w := a.S.W
	if a.S != b.S {
		panic(fmt.Sprintf("BVBin %s sort mismatch %v %v", op, a.S, b.S))
	}
	if a.IsConst && b.IsConst {
		x, y := a.C, b.C
		var r uint64
		ok := true
		switch op {
		case "bvadd":
			r = x + y
		case "bvsub":
			r = x - y
		case "bvmul":
			r = x * y
		case "bvand":
			r = x & y
		case "bvor":
			r = x | y
		case "bvxor":
			r = x ^ y
		case "bvshl":
			if y >= uint64(w) {
				r = 0
			} else {
				r = x << y
			}
		case "bvlshr":
			if y >= uint64(w) {
				r = 0
			} else {
				r = x >> y
			}
		case "bvashr":
			sx := sext(x, w)
			if y >= uint64(w) {
				y = uint64(w - 1)
			}
			r = uint64(sx >> y)
		case "bvudiv":
			if y == 0 {
				ok = false
			} else {
				r = x / y
			}
		case "bvurem":
			if y == 0 {
				ok = false
			} else {
				r = x % y
			}
		case "bvsdiv":
			if y == 0 {
				ok = false
			} else {
				sx, sy := sext(x, w), sext(y, w)
				if sy == -1 {
					r = uint64(-sx)
				} else {
					r = uint64(sx / sy)
				}
			}
		case "bvsrem":
			if y == 0 {
				ok = false
			} else {
				sx, sy := sext(x, w), sext(y, w)
				if sy == -1 {
					r = 0
				} else {
					r = uint64(sx % sy)
				}
			}
		default:
			ok = false
		}
		if ok {
			return ts.BV(w, r)
		}
	}
	// light algebraic identities
	switch op {
	case "bvadd":
		if a.IsConst && a.C == 0 {
			return b
		}
		if b.IsConst && b.C == 0 {
			return a
		}
	case "bvsub":
		if b.IsConst && b.C == 0 {
			return a
		}
		if a == b {
			return ts.BV(w, 0)
		}
	}
	return ts.mk(op, a.S, [2]int{}, "", 0, false, a, b)
}

// BVCmp builds a comparison: bvult bvule bvslt bvsle (others derived by caller).
func (ts *TermStore) BVCmp(op string, a, b *Term) *Term {
	if a.S != b.S {
		panic(fmt.Sprintf("BVCmp %s sort mismatch %v %v", op, a.S, b.S))
	}
	w := a.S.W
	if a.IsConst && b.IsConst {
		switch op {
		case "bvult":
			return ts.Bool(a.C < b.C)
		case "bvule":
			return ts.Bool(a.C <= b.C)
		case "bvslt":
			return ts.Bool(sext(a.C, w) < sext(b.C, w))
		case "bvsle":
			return ts.Bool(sext(a.C, w) <= sext(b.C, w))
		}
	}
	if a == b {
		return ts.Bool(op == "bvule" || op == "bvsle")
	}
	return ts.mk(op, BoolSort, [2]int{}, "", 0, false, a, b)
}

func (ts *TermStore) BVNeg(a *Term) *Term {
	if a.IsConst {
		return ts.BV(a.S.W, -a.C)
	}
	return ts.mk("bvneg", a.S, [2]int{}, "", 0, false, a)
}

func (ts *TermStore) BVNot(a *Term) *Term {
	if a.IsConst {
		return ts.BV(a.S.W, ^a.C)
	}
	return ts.mk("bvnot", a.S, [2]int{}, "", 0, false, a)
}

func (ts *TermStore) Extract(a *Term, hi, lo int) *Term {
	w := hi - lo + 1
	if w == a.S.W {
		return a
	}
	if a.IsConst {
		return ts.BV(w, a.C>>uint(lo))
	}
	return ts.mk("extract", Sort{SBV, w}, [2]int{hi, lo}, "", 0, false, a)
}

func (ts *TermStore) ZExt(a *Term, to int) *Term {
	if to == a.S.W {
		return a
	}
	if a.IsConst {
		return ts.BV(to, a.C)
	}
	return ts.mk("zero_extend", Sort{SBV, to}, [2]int{to - a.S.W, 0}, "", 0, false, a)
}

func (ts *TermStore) SExt(a *Term, to int) *Term {
	if to == a.S.W {
		return a
	}
	if a.IsConst {
		return ts.BV(to, uint64(sext(a.C, a.S.W)))
	}
	return ts.mk("sign_extend", Sort{SBV, to}, [2]int{to - a.S.W, 0}, "", 0, false, a)
}

// ---- floating point ----

func fpVal(t *Term) float64 {
	if t.S.W == 32 {
		return float64(math.Float32frombits(uint32(t.C)))
	}
	return math.Float64frombits(t.C)
}

func (ts *TermStore) FPConst(w int, f float64) *Term {
	if w == 32 {
		return ts.FPBits(32, uint64(math.Float32bits(float32(f))))
	}
	return ts.FPBits(64, math.Float64bits(f))
}

// FPCmp: fp.eq fp.lt fp.leq (IEEE semantics, as Go's == < <=).
func (ts *TermStore) FPCmp(op string, a, b *Term) *Term {
	if a.IsConst && b.IsConst {
		x, y := fpVal(a), fpVal(b)
		switch op {
		case "fp.eq":
			return ts.Bool(x == y)
		case "fp.lt":
			return ts.Bool(x < y)
		case "fp.leq":
			return ts.Bool(x <= y)
		}
	}
	return ts.mk(op, BoolSort, [2]int{}, "", 0, false, a, b)
}

func (ts *TermStore) FPNeg(a *Term) *Term {
	if a.IsConst {
		return ts.FPConst(a.S.W, -fpVal(a))
	}
	return ts.mk("fp.neg", a.S, [2]int{}, "", 0, false, a)
}

func (ts *TermStore) FPIsNaN(a *Term) *Term {
	if a.IsConst {
		return ts.Bool(math.IsNaN(fpVal(a)))
	}
	return ts.mk("fp.isNaN", BoolSort, [2]int{}, "", 0, false, a)
}

// FPUn: fp.abs and fp.rti.<mode> (round to integral: RNA = math.Round, RTN = Floor, RTP = Ceil,
// RTZ = Trunc, RNE = RoundToEven); exact operations, so 32-bit values are computed in float64.
func (ts *TermStore) FPUn(op string, a *Term) *Term {
	if a.IsConst {
		x := fpVal(a)
		var r float64
		switch op {
		case "fp.abs":
			r = math.Abs(x)
		case "fp.rti.RNA":
			r = math.Round(x)
		case "fp.rti.RTN":
			r = math.Floor(x)
		case "fp.rti.RTP":
			r = math.Ceil(x)
		case "fp.rti.RTZ":
			r = math.Trunc(x)
		case "fp.rti.RNE":
			r = math.RoundToEven(x)
		}
		return ts.FPConst(a.S.W, r)
	}
	return ts.mk(op, a.S, [2]int{}, "", 0, false, a)
}

// FPArith: fp.add fp.sub fp.mul fp.div with RNE.
func (ts *TermStore) FPArith(op string, a, b *Term) *Term {
	if a.IsConst && b.IsConst {
		x, y := fpVal(a), fpVal(b)
		var r float64
		switch op {
		case "fp.add":
			r = x + y
		case "fp.sub":
			r = x - y
		case "fp.mul":
			r = x * y
		case "fp.div":
			r = x / y
		}
		if a.S.W == 32 {
			r = float64(float32(r))
		}
		return ts.FPConst(a.S.W, r)
	}
	return ts.mk(op, a.S, [2]int{}, "", 0, false, a, b)
}

// FPFromFP converts between float widths (RNE).
func (ts *TermStore) FPFromFP(a *Term, to int) *Term {
	if a.S.W == to {
		return a
	}
	if a.IsConst {
		return ts.FPConst(to, fpVal(a))
	}
	return ts.mk("fp.to_fp", Sort{SFP, to}, [2]int{}, "", 0, false, a)
}

// FPFromInt converts a (signed|unsigned) bit-vector to float (RNE).
func (ts *TermStore) FPFromInt(a *Term, signed bool, to int) *Term {
	if a.IsConst {
		var f float64
		if signed {
			f = float64(sext(a.C, a.S.W))
		} else {
			f = float64(a.C)
		}
		if to == 32 {
			if signed {
				f = float64(float32(sext(a.C, a.S.W)))
			} else {
				f = float64(float32(a.C))
			}
		}
		return ts.FPConst(to, f)
	}
	if signed {
		return ts.mk("fp.from_sbv", Sort{SFP, to}, [2]int{}, "", 0, false, a)
	}
	return ts.mk("fp.from_ubv", Sort{SFP, to}, [2]int{}, "", 0, false, a)
}

// FPToInt converts float to a bit-vector (RTZ). Out-of-range is left to the solver
// (unspecified in SMT-LIB and implementation-dependent in Go).
func (ts *TermStore) FPToInt(a *Term, signed bool, w int) *Term {
	if a.IsConst {
		f := fpVal(a)
		if !math.IsNaN(f) && !math.IsInf(f, 0) {
			tr := math.Trunc(f)
			if signed {
				lo := -math.Ldexp(1, w-1)
				hi := math.Ldexp(1, w-1)
				if tr >= lo && tr < hi {
					return ts.BV(w, uint64(int64(tr)))
				}
			} else {
				hi := math.Ldexp(1, w)
				if tr >= 0 && tr < hi {
					return ts.BV(w, uint64(tr))
				}
			}
		}
	}
	if a.IsConst && ts.concrete {
		// out of range / NaN: what the amd64 code Go generates yields (best effort, replay only)
		switch {
		case signed && w == 64:
			return ts.BV(64, 0x8000000000000000)
		case signed && w == 32:
			return ts.BV(32, 0x80000000)
		default:
			return ts.BV(w, 0)
		}
	}
	if !a.IsConst {
		var lo, hi float64
		if signed {
			lo, hi = -math.Ldexp(1, w-1), math.Ldexp(1, w-1)
		} else {
			lo, hi = -1, math.Ldexp(1, w)
		}
		c := ts.And(ts.Not(ts.FPIsNaN(a)), ts.And(ts.FPCmp("fp.lt", ts.FPConst(a.S.W, lo-boolf(signed)), a), ts.FPCmp("fp.lt", a, ts.FPConst(a.S.W, hi))))
		ts.rangeCons = append(ts.rangeCons, c)
	}
	if signed {
		return ts.mk("fp.to_sbv", Sort{SBV, w}, [2]int{w, 0}, "", 0, false, a)
	}
	return ts.mk("fp.to_ubv", Sort{SBV, w}, [2]int{w, 0}, "", 0, false, a)
}

func boolf(b bool) float64 {
	if b {
		return 1
	}
	return 0
}

// UF applies an uninterpreted function (declared on first use).
func (ts *TermStore) UF(name string, ret Sort, args ...*Term) *Term {
	if _, ok := ts.ufs[name]; !ok {
		d := &ufDecl{name: name, ret: ret}
		for _, a := range args {
			d.args = append(d.args, a.S)
		}
		ts.ufs[name] = d
		ts.ufOrd = append(ts.ufOrd, name)
	}
	return ts.mk("uf", ret, [2]int{}, name, 0, false, args...)
}

// ---- printing ----

func (t *Term) ref() string {
	if t.IsConst {
		return t.constSMT()
	}
	if t.Op == "var" {
		return t.Name
	}
	return fmt.Sprintf("t%d", t.id)
}

func (t *Term) constSMT() string {
	switch t.S.K {
	case SBool:
		if t.C == 1 {
			return "true"
		}
		return "false"
	case SBV:
		if t.S.W%4 == 0 {
			return fmt.Sprintf("#x%0*x", t.S.W/4, t.C)
		}
		return fmt.Sprintf("#b%0*b", t.S.W, t.C)
	case SFP:
		if t.S.W == 32 {
			return fmt.Sprintf("((_ to_fp 8 24) #x%08x)", t.C)
		}
		return fmt.Sprintf("((_ to_fp 11 53) #x%016x)", t.C)
	}
	return "?"
}

func (t *Term) bodySMT() string {
	a := func(i int) string { return t.Args[i].ref() }
	switch t.Op {
	case "not":
		return "(not " + a(0) + ")"
	case "and", "or", "=", "ite", "bvadd", "bvsub", "bvmul", "bvand", "bvor", "bvxor", "bvshl", "bvlshr", "bvashr",
		"bvudiv", "bvurem", "bvsdiv", "bvsrem", "bvult", "bvule", "bvslt", "bvsle", "bvneg", "bvnot",
		"fp.eq", "fp.lt", "fp.leq", "fp.neg", "fp.isNaN":
		s := "(" + t.Op
		for i := range t.Args {
			s += " " + a(i)
		}
		return s + ")"
	case "fp.add", "fp.sub", "fp.mul", "fp.div":
		return "(" + t.Op + " RNE " + a(0) + " " + a(1) + ")"
	case "fp.abs":
		return "(fp.abs " + a(0) + ")"
	case "fp.rti.RNA", "fp.rti.RTN", "fp.rti.RTP", "fp.rti.RTZ", "fp.rti.RNE":
		return "(fp.roundToIntegral " + t.Op[7:] + " " + a(0) + ")"
	case "extract":
		return fmt.Sprintf("((_ extract %d %d) %s)", t.P[0], t.P[1], a(0))
	case "zero_extend", "sign_extend":
		return fmt.Sprintf("((_ %s %d) %s)", t.Op, t.P[0], a(0))
	case "fp.to_fp":
		if t.S.W == 32 {
			return "((_ to_fp 8 24) RNE " + a(0) + ")"
		}
		return "((_ to_fp 11 53) RNE " + a(0) + ")"
	case "fp.from_sbv":
		if t.S.W == 32 {
			return "((_ to_fp 8 24) RNE " + a(0) + ")"
		}
		return "((_ to_fp 11 53) RNE " + a(0) + ")"
	case "fp.from_ubv":
		if t.S.W == 32 {
			return "((_ to_fp_unsigned 8 24) RNE " + a(0) + ")"
		}
		return "((_ to_fp_unsigned 11 53) RNE " + a(0) + ")"
	case "fp.to_sbv":
		return fmt.Sprintf("((_ fp.to_sbv %d) RTZ %s)", t.P[0], a(0))
	case "fp.to_ubv":
		return fmt.Sprintf("((_ fp.to_ubv %d) RTZ %s)", t.P[0], a(0))
	case "uf":
		if len(t.Args) == 0 {
			return t.Name
		}
		s := "(" + t.Name
		for i := range t.Args {
			s += " " + a(i)
		}
		return s + ")"
	}
	panic("bodySMT: unknown op " + t.Op)
}

// String gives a compact human-readable rendering (for evidence samples / debugging).
func (t *Term) String() string {
	if t.IsConst {
		switch t.S.K {
		case SBool:
			return t.constSMT()
		case SBV:
			return fmt.Sprintf("%d", sext(t.C, t.S.W))
		case SFP:
			return fmt.Sprintf("%g", fpVal(t))
		}
	}
	if t.Op == "var" {
		return t.Name
	}
	s := "(" + t.Op
	if t.Op == "uf" {
		s = "(" + t.Name
	}
	for _, a := range t.Args {
		s += " " + a.String()
	}
	return s + ")"
}
