package main

// Counterexample cache: the last satisfying model of the path condition is kept and new guards
// are first evaluated under it (by substitution + constant folding); only guards the model does not
// already satisfy go to the solver.

// evalUnder evaluates t under model m (variables missing from m are unconstrained by the path
// condition and are fixed to 0 in m). ok=false when t contains uninterpreted parts.
func (e *Exec) evalUnder(t *Term, m map[string]uint64) (*Term, bool) {
	memo := map[*Term]*Term{}
	ok := true
	var ev func(x *Term) *Term
	ev = func(x *Term) *Term {
		if x.IsConst {
			return x
		}
		if r, hit := memo[x]; hit {
			return r
		}
		var r *Term
		ts := e.ts
		switch x.Op {
		case "var":
			bits, has := m[x.Name]
			if !has {
				m[x.Name] = 0
			}
			switch x.S.K {
			case SBool:
				r = ts.Bool(bits != 0)
			case SBV:
				r = ts.BV(x.S.W, bits)
			default:
				r = ts.FPBits(x.S.W, bits)
			}
		case "uf":
			ok = false
			r = x
		default:
			as := make([]*Term, len(x.Args))
			for i, a := range x.Args {
				as[i] = ev(a)
				if !ok {
					memo[x] = x
					return x
				}
			}
			r = e.rebuild(x, as)
			if !r.IsConst {
				ok = false
			}
		}
		memo[x] = r
		return r
	}
	r := ev(t)
	return r, ok && r.IsConst
}

// rebuild re-applies x's operator to new arguments (through the folding constructors).
func (e *Exec) rebuild(x *Term, a []*Term) *Term {
	ts := e.ts
	switch x.Op {
	case "not":
		return ts.Not(a[0])
	case "and":
		return ts.And(a[0], a[1])
	case "or":
		return ts.Or(a[0], a[1])
	case "=":
		return ts.Eq(a[0], a[1])
	case "ite":
		return ts.Ite(a[0], a[1], a[2])
	case "bvadd", "bvsub", "bvmul", "bvand", "bvor", "bvxor", "bvshl", "bvlshr", "bvashr", "bvudiv", "bvurem", "bvsdiv", "bvsrem":
		return ts.BVBin(x.Op, a[0], a[1])
	case "bvult", "bvule", "bvslt", "bvsle":
		return ts.BVCmp(x.Op, a[0], a[1])
	case "bvneg":
		return ts.BVNeg(a[0])
	case "bvnot":
		return ts.BVNot(a[0])
	case "extract":
		return ts.Extract(a[0], x.P[0], x.P[1])
	case "zero_extend":
		return ts.ZExt(a[0], x.S.W)
	case "sign_extend":
		return ts.SExt(a[0], x.S.W)
	case "fp.eq", "fp.lt", "fp.leq":
		return ts.FPCmp(x.Op, a[0], a[1])
	case "fp.neg":
		return ts.FPNeg(a[0])
	case "fp.isNaN":
		return ts.FPIsNaN(a[0])
	case "fp.add", "fp.sub", "fp.mul", "fp.div":
		return ts.FPArith(x.Op, a[0], a[1])
	case "fp.abs", "fp.rti.RNA", "fp.rti.RTN", "fp.rti.RTP", "fp.rti.RTZ", "fp.rti.RNE":
		return ts.FPUn(x.Op, a[0])
	case "fp.to_fp":
		return ts.FPFromFP(a[0], x.S.W)
	case "fp.from_sbv":
		return ts.FPFromInt(a[0], true, x.S.W)
	case "fp.from_ubv":
		return ts.FPFromInt(a[0], false, x.S.W)
	case "fp.to_sbv":
		return ts.FPToInt(a[0], true, x.S.W)
	case "fp.to_ubv":
		return ts.FPToInt(a[0], false, x.S.W)
	}
	return x
}

// holdsInModel: does the cached model (valid for the current path condition) satisfy g?
func (e *Exec) holdsInModel(g *Term) bool {
	if e.model == nil {
		return false
	}
	r, ok := e.evalUnder(g, e.model)
	return ok && r.IsTrue()
}

// pcVarList returns the variables the solver must report for a model of pc ∧ g.
func (e *Exec) modelVars(g *Term) []*Term {
	seen := map[*Term]bool{}
	var out []*Term
	var walk func(t *Term)
	walk = func(t *Term) {
		if t.IsConst || seen[t] {
			return
		}
		seen[t] = true
		if t.Op == "var" {
			out = append(out, t)
			return
		}
		for _, a := range t.Args {
			walk(a)
		}
	}
	for v := range e.pcVars {
		walk(v)
	}
	if g != nil {
		walk(g)
	}
	for _, v := range e.nondets {
		walk(v)
	}
	return out
}

func copyModel(m map[string]uint64) map[string]uint64 {
	c := make(map[string]uint64, len(m)+4)
	for k, v := range m {
		c[k] = v
	}
	return c
}
