package main

// Exec: one symbolic path. Threads are goroutines passing a baton; the scheduler forks on
// every choice between enabled threads (sleep-set partial-order reduction).

import (
	"fmt"
	"go/token"
	"go/types"
	"sort"
	"strings"
	"sync"

	"golang.org/x/tools/go/ssa"
)

type Config struct {
	StepBudget   int
	Unwind       int
	MaxConc      int // cap on values enumerated when concretising
	Symmetry     bool
	NoSleepSets  bool
	QueryTimeout int
	CrossCheck   int // per worker and harness: how many unsat assertion verdicts are re-asked to cvc5
}

type Engine struct {
	prog    *ssa.Program
	pkg     *ssa.Package
	cfg     Config
	mu      sync.Mutex
	strs    []string
	strIdx  map[string]uint32
	fnCount map[string]int
	harnessFiles map[string]bool
	only    map[string]bool // harness files loaded (nil = all)
}

func (g *Engine) intern(s string) uint32 {
	g.mu.Lock()
	defer g.mu.Unlock()
	if id, ok := g.strIdx[s]; ok {
		return id
	}
	id := uint32(len(g.strs))
	g.strs = append(g.strs, s)
	g.strIdx[s] = id
	return id
}

func (g *Engine) strOf(id uint32) string {
	g.mu.Lock()
	defer g.mu.Unlock()
	if int(id) < len(g.strs) {
		return g.strs[id]
	}
	return fmt.Sprintf("sym%d", id)
}

func (g *Engine) noteFn(name string, n int) {
	g.mu.Lock()
	g.fnCount[name] += n
	g.mu.Unlock()
}

func (g *Engine) isHarnessPos(p token.Pos) bool {
	if !p.IsValid() {
		return false
	}
	f := g.prog.Fset.Position(p).Filename
	if i := strings.LastIndex(f, "/"); i >= 0 {
		f = f[i+1:]
	}
	return strings.HasPrefix(f, "zz_verif")
}

func (g *Engine) isHarnessFn(fn *ssa.Function) bool {
	for fn.Parent() != nil {
		fn = fn.Parent()
	}
	if fn.Pos().IsValid() {
		return g.isHarnessPos(fn.Pos())
	}
	if o := fn.Object(); o != nil {
		return g.isHarnessPos(o.Pos())
	}
	return false
}

// ---------------------------------------------------------------- per-path state

type Violation struct {
	Harness string            `json:"harness"`
	Kind    string            `json:"kind"` // assert panic deadlock race leak
	Label   string            `json:"label"`
	Msg     string            `json:"msg"`
	Sig     string            `json:"sig"`
	Model   map[string]uint64 `json:"model,omitempty"`
	Trail   []int             `json:"trail"`
	Log     []LogEntry        `json:"log,omitempty"`
	Sched   []int             `json:"sched,omitempty"`
	Free    []int             `json:"free,omitempty"`
	tape    *replayTape
}

type LogEntry struct {
	Tag string `json:"tag"`
	Val string `json:"val"`
}

type decisionRec struct {
	kind   string
	n      int
	chosen int
}

type Exec struct {
	eng   *Engine
	ts    *TermStore
	ps    *PathSolver
	pc    []*Term
	trail []int
	pos   int
	taken []int // decisions taken so far on this path
	kinds []string
	newWork [][]int

	harness string
	unwind  int
	steps   int
	foldedBranches int

	threads  []*Thread
	cur      *Thread
	parked   chan struct{}
	aborting bool
	abort    *pathAbort
	sleep    map[int]bool
	multi    bool // more than one thread has existed
	yieldObj, monObj *int

	globals  map[*ssa.Global]*Cell
	cellSeq  int
	errSeq   int
	allocHarness bool
	syncObjs map[*Cell]*SyncState
	timers   []*Timer
	now      *Term
	nondetSeq map[string]int
	nondets  []*Term
	nondetLabels []string

	// results
	violations []*Violation
	covers     map[string]bool
	asserts    map[string]int // label -> times evaluated
	log        []LogEntry
	sigParts   []string
	stubs      map[string]int
	queries    int
	unknowns   []string
	endKind    string
	endMsg     string
	schedTrace []int
	transitions int
	concrete   map[string]uint64 // when non-nil: concrete re-execution under a model
	freeTrail  []int             // concrete mode: unguarded choices (schedule, select) in order
	freePos    int
	freeTaken  []int

	skipExtInit   bool
	guardAccesses int
	params        map[string]int
	paramsUsed    map[string]int
	assertQueries, assertUnsat, assertFolded int
	nondetKeys    []nondetKey
	json          *jsonMemo
	timersCreated, sleeps int
	logTerms      []logTerm
	lastPanic     *goPanic
	monClock      []int
	inPure        bool
	guards        []guardedCell
	fnOwn         map[*ssa.Function]int
	pcVars, pcSeen map[*Term]bool
	trivialFeasible int
	model         map[string]uint64 // a model of the current path condition, or nil
	trailModel    map[string]uint64
	newWorkModels []map[string]uint64
	cacheHits     int
	curKind       string
	pkgInit       map[*ssa.Package]bool
	inPkgInit     int
	symmetryPruned int
	solver2       *Solver
	crossBudget   *int
	crossChecked, crossUnknown, crossDisagree int
	rangeExcluded int
	timerObjs     map[*Cell]*Timer
	condObjs      map[*Cell]*condState
	addrs         map[any]uint64
	assertInherited int
	pcSet         map[*Term]bool
}

type Thread struct {
	deepSame bool // vSameDeep in progress: maps and slices by content
	id     int
	e      *Exec
	wake   chan struct{}
	parked chan struct{}
	op     *SyncOp
	done   bool
	vc     []int // happens-before clock over flyt's own synchronisation
	vcAll  []int // the same plus the harness monitor lock (vMon)
	depth  int
	fr     *frame
	start  func(t *Thread)
	inMon  bool
	name   string
	recoverable *goPanic // the panic a deferred function may recover right now
	deferDepth  int
	recovered   bool
	isFresh  bool   // has not been scheduled since its thread-local prefix
	spawnKey string // go statement + argument identities (symmetry class)
}

type SyncOp struct {
	kind    string
	obj     interface{}
	objs    []interface{} // when set: the operation touches several objects (select)
	accs    []string      // per object access kind: r w enq deq add
	acc     string        // access kind for obj ("" = w, or r when read is set)
	class   int           // vMonC: commutative class (>0)
	enabled func() bool
	read    bool // read-mode op: independent of other read-mode ops on the same object
	pos     string
	tpos    token.Pos
}

func (g *Engine) newExec(harness string, trail []int, s *Solver) *Exec {
	e := &Exec{eng: g, ts: NewTermStore(), trail: trail, harness: harness, unwind: g.cfg.Unwind,
		parked: make(chan struct{}), sleep: map[int]bool{}, globals: map[*ssa.Global]*Cell{},
		syncObjs: map[*Cell]*SyncState{}, nondetSeq: map[string]int{}, covers: map[string]bool{},
		asserts: map[string]int{}, stubs: map[string]int{}, fnOwn: map[*ssa.Function]int{}}
	e.ps = &PathSolver{s: s, ts: e.ts}
	e.now = e.ts.BV(64, 0)
	e.yieldObj, e.monObj = new(int), new(int)
	return e
}

func (e *Exec) stubUse(name string) { e.stubs[name]++ }

// assume adds c to the path condition; an infeasible path is abandoned.
func (e *Exec) assume(c *Term) {
	if c.IsTrue() {
		return
	}
	if c.IsFalse() {
		panic(pathAbort{"infeasible", "assumption false"})
	}
	if e.model != nil && !e.holdsInModel(c) {
		e.model = nil
	}
	e.pc = append(e.pc, c)
	if e.pcSet == nil {
		e.pcSet = map[*Term]bool{}
	}
	e.pcSet[c] = true
	e.notePCVars(c)
}

// notePCVars records the variables occurring in the path condition.
func (e *Exec) notePCVars(c *Term) {
	if e.pcVars == nil {
		e.pcVars = map[*Term]bool{}
		e.pcSeen = map[*Term]bool{}
	}
	var walk func(t *Term)
	walk = func(t *Term) {
		if t.IsConst || e.pcSeen[t] {
			return
		}
		e.pcSeen[t] = true
		if t.Op == "var" {
			e.pcVars[t] = true
			return
		}
		for _, a := range t.Args {
			walk(a)
		}
	}
	walk(c)
}

// triviallySat: g constrains only one variable that the path condition does not mention, in a
// form that is obviously satisfiable (v, ¬v, v = const, v ≠ const).
func (e *Exec) triviallySat(g *Term) bool {
	neg := false
	if g.Op == "not" {
		g = g.Args[0]
		neg = true
	}
	_ = neg
	var v *Term
	switch {
	case g.Op == "var" && g.S.K == SBool:
		v = g
	case g.Op == "=" && g.Args[0].Op == "var" && g.Args[1].IsConst:
		v = g.Args[0]
	case g.Op == "=" && g.Args[1].Op == "var" && g.Args[0].IsConst:
		v = g.Args[1]
	case g.Op == "=" && g.Args[0].Op == "var" && g.Args[1].Op == "var":
		// two distinct variables, one of them unconstrained: both = and ≠ are satisfiable
		if g.Args[0].S.K == SBV && g.Args[0].S.W >= 2 && (!e.pcVars[g.Args[0]] || !e.pcVars[g.Args[1]]) {
			return true
		}
		return false
	default:
		return false
	}
	if v.S.K == SBV && v.S.W < 2 {
		return false
	}
	return !e.pcVars[v]
}

// feasible asks whether pc ∧ g is satisfiable (Unknown counts as feasible, and is recorded). It
// returns a model of pc ∧ g when one is known (from the cache or from the solver).
func (e *Exec) feasibleM(g *Term) (bool, map[string]uint64) {
	if g == nil || g.IsTrue() {
		return true, e.model
	}
	if g.IsFalse() {
		return false, nil
	}
	if e.concrete != nil {
		panic("symbolic guard during concrete re-execution: " + g.String())
	}
	if e.pcSet[g] {
		e.cacheHits++
		return true, e.model
	}
	if e.pcSet[e.ts.Not(g)] {
		e.cacheHits++
		return false, nil
	}
	if e.holdsInModel(g) {
		e.cacheHits++
		return true, e.model
	}
	if e.triviallySat(g) {
		e.trivialFeasible++
		return true, nil
	}
	e.queries++
	e.eng.noteFn("query:"+e.curKind, 1)
	r, m, why := e.ps.Check(e.pc, g, e.modelVars(g))
	if r == Unknown {
		e.unknowns = append(e.unknowns, why)
		return true, nil
	}
	if r == Sat && m == nil {
		m = map[string]uint64{}
	}
	return r == Sat, m
}

func (e *Exec) feasible(g *Term) bool {
	ok, _ := e.feasibleM(g)
	return ok
}

// choose forks over options with the given guards (nil guard = unconditional option).
func (e *Exec) choose(kind string, guards []*Term) int {
	n := len(guards)
	e.curKind = kind
	if i := strings.Index(kind, "@"); i >= 0 {
		e.curKind = kind[:i]
	}
	var i int
	free := true
	for _, g := range guards {
		if g != nil {
			free = false
		}
	}
	if e.concrete != nil {
		if free {
			if e.freePos >= len(e.freeTrail) {
				// past the recorded part of the schedule (e.g. after the violation point): any choice will do
				return 0
			}
			i = e.freeTrail[e.freePos]
			e.freePos++
			if i >= n {
				panic(pathAbort{"fatal", "concrete re-execution: free choice out of range at " + kind})
			}
			return i
		}
		for j, g := range guards {
			if g == nil || g.IsTrue() {
				return j
			}
			if !g.IsConst {
				panic(pathAbort{"fatal", "symbolic guard during concrete re-execution at " + kind + ": " + g.String()})
			}
		}
		panic(pathAbort{"infeasible", "concrete re-execution: no option holds at " + kind})
	}
	if free {
		defer func() { e.freeTaken = append(e.freeTaken, i) }()
	}
	if e.pos < len(e.trail) {
		i = e.trail[e.pos]
		if i >= n {
			panic(fmt.Sprintf("trail desync at %d (%s): choice %d of %d; kinds so far %v", e.pos, kind, i, n, e.kinds))
		}
		if e.pos == len(e.trail)-1 && e.trailModel != nil {
			// the model that witnessed this sibling's feasibility when it was discovered
			defer func() { e.model = e.trailModel; e.trailModel = nil }()
		}
	} else {
		first := -1
		var firstModel map[string]uint64
		for j := 0; j < n; j++ {
			ok, m := e.feasibleM(guards[j])
			if ok {
				if first < 0 {
					first = j
					firstModel = m
				} else {
					w := make([]int, len(e.taken)+1)
					copy(w, e.taken)
					w[len(e.taken)] = j
					e.newWork = append(e.newWork, w)
					if m != nil {
						m = copyModel(m)
					}
					e.newWorkModels = append(e.newWorkModels, m)
				}
			}
		}
		if first < 0 {
			panic(pathAbort{"infeasible", "no feasible option at " + kind})
		}
		i = first
		if guards[i] != nil {
			if firstModel != nil {
				defer func() { e.model = firstModel }()
			}
		}
	}
	e.pos++
	e.taken = append(e.taken, i)
	e.kinds = append(e.kinds, kind)
	if guards[i] != nil {
		e.assume(guards[i])
	}
	return i
}

// concretise forks over the feasible concrete values of x (bounded enumeration through the solver).
func (e *Exec) concretise(x *Term, what string) int {
	if e.pos < len(e.trail) {
		v := e.trail[e.pos]
		e.pos++
		e.taken = append(e.taken, v)
		e.kinds = append(e.kinds, "conc:"+what)
		e.assume(e.ts.Eq(x, e.ts.BV(x.S.W, uint64(int64(v)))))
		if e.pos == len(e.trail) && e.trailModel != nil {
			e.model, e.trailModel = e.trailModel, nil
		}
		return v
	}
	// enumerate feasible values
	var vals []int
	models := map[int]map[string]uint64{}
	block := e.ts.Bool(true)
	for len(vals) <= e.eng.cfg.MaxConc {
		e.queries++
		r, m, why := e.ps.Check(e.pc, block, e.modelVars(x))
		if r == Unknown {
			e.unknowns = append(e.unknowns, "concretise: "+why)
			break
		}
		if r == Unsat {
			break
		}
		xv, _ := e.evalUnder(x, m)
		bits := xv.C
		v := int(sext(bits, x.S.W))
		vals = append(vals, v)
		models[v] = m
		block = e.ts.And(block, e.ts.Not(e.ts.Eq(x, e.ts.BV(x.S.W, bits))))
	}
	if len(vals) == 0 {
		panic(pathAbort{"infeasible", "no value for " + what})
	}
	if len(vals) > e.eng.cfg.MaxConc {
		panic(pathAbort{"unwind", fmt.Sprintf("concretisation of %s has more than %d values (bound the size in the harness)", what, e.eng.cfg.MaxConc)})
	}
	sort.Ints(vals)
	for _, v := range vals[1:] {
		w := make([]int, len(e.taken)+1)
		copy(w, e.taken)
		w[len(e.taken)] = v
		e.newWork = append(e.newWork, w)
		e.newWorkModels = append(e.newWorkModels, models[v])
	}
	e.model = nil
	defer func(m map[string]uint64) { e.model = m }(models[vals[0]])
	v := vals[0]
	e.pos++
	e.taken = append(e.taken, v)
	e.kinds = append(e.kinds, "conc:"+what)
	e.assume(e.ts.Eq(x, e.ts.BV(x.S.W, uint64(int64(v)))))
	return v
}

// ---------------------------------------------------------------- violations

func (e *Exec) violation(kind, label, msg string, model map[string]uint64) {
	sig := e.harness + "/" + kind + "/" + label
	if len(e.sigParts) > 0 {
		sig += "/" + strings.Join(e.sigParts, ",")
	}
	for _, v := range e.violations {
		if v.Sig == sig {
			return
		}
	}
	v := &Violation{Harness: e.harness, Kind: kind, Label: label, Msg: msg, Sig: sig, Model: model,
		Trail: append([]int{}, e.taken...), Log: append([]LogEntry{}, e.log...), Sched: append([]int{}, e.schedTrace...), Free: append([]int{}, e.freeTaken...)}
	e.violations = append(e.violations, v)
}

// modelNow returns a model of the current path condition (for violations without their own query).
func (e *Exec) modelNow(extra *Term) (map[string]uint64, bool) {
	if e.concrete != nil {
		return e.concrete, true
	}
	if extra == nil && e.model != nil {
		e.cacheHits++
		return e.fullModel(e.model), true
	}
	e.queries++
	r, m, why := e.ps.Check(e.pc, extra, e.modelVars(extra))
	if r == Unknown {
		e.unknowns = append(e.unknowns, "model: "+why)
		return nil, false
	}
	if r == Unsat {
		return nil, false
	}
	if m == nil {
		m = map[string]uint64{}
	}
	return m, true
}

// fullModel completes a cached model with 0 for nondets the path condition never constrained.
func (e *Exec) fullModel(m map[string]uint64) map[string]uint64 {
	c := copyModel(m)
	for _, v := range e.nondets {
		if _, ok := c[v.Name]; !ok {
			c[v.Name] = 0
		}
	}
	return c
}

// ---------------------------------------------------------------- threads and scheduling

func (e *Exec) newThread(name string, start func(t *Thread)) *Thread {
	t := &Thread{id: len(e.threads), e: e, wake: make(chan struct{}), parked: make(chan struct{}), start: start, name: name}
	e.threads = append(e.threads, t)
	if len(e.threads) > 1 {
		e.multi = true
	}
	go func() {
		<-t.wake
		defer func() {
			r := recover()
			t.done = true
			t.op = nil
			if r != nil {
				switch x := r.(type) {
				case pathAbort:
					if x.kind != "killed" && e.abort == nil {
						e.abort = &x
					}
				case *goPanic:
					if e.abort == nil {
						// uncaught Go panic in interpreted code
						m, ok := e.modelNow(nil)
						if ok {
							e.violation("panic", x.reason+"@"+x.pos, fmt.Sprintf("uncaught panic: %s %s", x.reason, e.describe(x.val)), m)
						}
						e.abort = &pathAbort{"panic", x.reason + " at " + x.pos}
					}
				default:
					if e.abort == nil {
						e.abort = &pathAbort{"fatal", fmt.Sprintf("engine panic: %v\n%s", r, stackTrace())}
					}
				}
			}
			t.parked <- struct{}{}
		}()
		if e.aborting {
			panic(pathAbort{"killed", ""})
		}
		t.start(t)
	}()
	return t
}

// visible parks the thread at a visible operation until the scheduler picks it.
func (t *Thread) visible(op *SyncOp) {
	e := t.e
	if e.inPkgInit > 0 {
		return // library package initialisers run before anything else could interleave
	}
	if t.inMon || t.id < 0 {
		panic(pathAbort{"fatal", "visible operation " + op.kind + " inside vMon/vBlockUntil body at " + t.posOf(op.tpos)})
	}
	if !e.multi && op.enabled() && op.kind != "quiesce" {
		return // single-threaded fast path: nothing to interleave with
	}
	t.op = op
	t.parked <- struct{}{}
	<-t.wake
	t.op = nil
	if e.aborting {
		panic(pathAbort{"killed", ""})
	}
}

// resume hands the baton to t and waits until it parks again (or finishes).
func (e *Exec) resume(t *Thread) {
	prev := e.cur
	e.cur = t
	t.wake <- struct{}{}
	<-t.parked
	e.cur = prev
}

func (o *SyncOp) objects() ([]interface{}, []string) {
	if o.objs != nil {
		return o.objs, o.accs
	}
	a := o.acc
	if a == "" {
		a = "w"
		if o.read {
			a = "r"
		}
	}
	return []interface{}{o.obj}, []string{a}
}

// accessesCommute: do two accesses to the same object commute in the current state?
func accessesCommute(obj interface{}, a, b string) bool {
	if a == "r" && b == "r" {
		return true
	}
	switch o := obj.(type) {
	case *ChanObj:
		// enqueue at the tail and dequeue at the head of a FIFO commute while it is neither empty nor full
		if (a == "enq" && b == "deq") || (a == "deq" && b == "enq") {
			return !o.closed && len(o.buf) >= 1 && len(o.buf) <= o.cap-1
		}
	case *wgKey:
		// Add/Done are commutative updates; a transient zero matters only to a goroutine that is
		// parked in Wait at that moment (and the counter cannot go negative when it is >= 2)
		if a == "add" && b == "add" {
			return o.st.counter >= 2 || (o.st.counter >= 1 && !o.waiterParked())
		}
	}
	return false
}

func independent(a, b *SyncOp) bool {
	if (a.obj == nil && a.objs == nil) || (b.obj == nil && b.objs == nil) {
		return false
	}
	if a.kind == "mon" && b.kind == "mon" {
		return a.class > 0 && a.class == b.class
	}
	ao, ar := a.objects()
	bo, br := b.objects()
	for i, x := range ao {
		for j, y := range bo {
			if x == y && !accessesCommute(x, ar[i], br[j]) {
				return false
			}
		}
	}
	return true
}

// wgKey identifies a WaitGroup as a dependency object (and gives access to its counter).
type wgKey struct {
	st *SyncState
	e  *Exec
}

// waiterParked: is some goroutine currently parked in Wait on this WaitGroup?
func (k *wgKey) waiterParked() bool {
	if k.e == nil {
		return true
	}
	for _, t := range k.e.threads {
		if !t.done && t.op != nil && t.op.kind == "wg.wait" && t.op.obj == interface{}(k) {
			return true
		}
	}
	return false
}

// runPath executes the harness to completion under the decision trail.
func (e *Exec) runPath(entry *ssa.Function) {
	main := e.newThread("main", func(t *Thread) {
		if init := e.eng.pkg.Func("init"); init != nil {
			t.runInit(init)
		}
		t.callFn(entry, nil, nil, token.NoPos)
	})
	main.vc = []int{1}
	main.vcAll = []int{1}
	e.resume(main)
	e.schedLoop(main)
	// tear down the remaining threads
	e.aborting = true
	for _, t := range e.threads {
		if !t.done {
			e.resume(t)
		}
	}
	if e.abort != nil {
		e.endKind, e.endMsg = e.abort.kind, e.abort.msg
	} else {
		e.endKind = "complete"
	}
}

func (e *Exec) schedLoop(main *Thread) {
	defer func() {
		if r := recover(); r != nil {
			if pa, ok := r.(pathAbort); ok {
				if e.abort == nil {
					e.abort = &pa
				}
				return
			}
			panic(r)
		}
	}()
	for {
		if e.abort != nil || main.done {
			break
		}
		var en []*Thread
		for _, t := range e.threads {
			if !t.done && t.op != nil && t.op.enabled() {
				en = append(en, t)
			}
		}
		if len(en) == 0 {
			if e.fireTimer() {
				continue
			}
			// deadlock: every live thread is blocked
			var desc []string
			for _, t := range e.threads {
				if !t.done && t.op != nil {
					desc = append(desc, fmt.Sprintf("T%d:%s@%s", t.id, t.op.kind, t.opPos()))
				}
			}
			if m, ok := e.modelNow(nil); ok {
				e.violation("deadlock", "deadlock", "all threads blocked: "+strings.Join(desc, " "), m)
			}
			e.abort = &pathAbort{"deadlock", strings.Join(desc, " ")}
			break
		}
		var cands []*Thread
		for _, t := range en {
			if !e.sleep[t.id] {
				cands = append(cands, t)
			}
		}
		if e.eng.cfg.Symmetry {
			cands = e.symmetryReduce(en, cands)
		}
		if len(cands) == 0 {
			e.abort = &pathAbort{"sleepblocked", ""}
			break
		}
		i := 0
		if len(cands) > 1 {
			i = e.choose("sched", make([]*Term, len(cands)))
		}
		ch := cands[i]
		if !e.eng.cfg.NoSleepSets {
			ns := map[int]bool{}
			for id := range e.sleep {
				th := e.threads[id]
				if !th.done && th.op != nil && independent(th.op, ch.op) {
					ns[id] = true
				}
			}
			for _, th := range cands[:i] {
				if independent(th.op, ch.op) {
					ns[th.id] = true
				}
			}
			e.sleep = ns
		}
		e.schedTrace = append(e.schedTrace, ch.id)
		e.transitions++
		ch.isFresh = false
		e.resume(ch)
	}
}

// symmetryReduce: idle-worker symmetry. Goroutines that were started by the same `go` statement
// with the same arguments, have not taken a single step since their thread-local prefix, and are
// parked at the same operation are interchangeable (the harnesses observe thread identity only
// through equality). Among such twins only the lowest-numbered one is a candidate; if that one is
// asleep (its step is known to be redundant here) so are its twins.
func (e *Exec) symmetryReduce(enabled []*Thread, cands []*Thread) []*Thread {
	rep := map[string]*Thread{}
	for _, t := range enabled {
		if k := t.twinKey(); k != "" {
			if _, ok := rep[k]; !ok {
				rep[k] = t
			}
		}
	}
	var out []*Thread
	for _, t := range cands {
		if k := t.twinKey(); k != "" {
			r := rep[k]
			if r != t || e.sleep[r.id] {
				e.symmetryPruned++
				continue
			}
		}
		out = append(out, t)
	}
	return out
}

// twinKey identifies the symmetry class of a still-fresh thread ("" = not eligible).
func (t *Thread) twinKey() string {
	if !t.isFresh || t.op == nil || t.spawnKey == "" {
		return ""
	}
	return t.spawnKey + "|" + t.op.kind + "@" + t.opPos()
}

func (t *Thread) runInit(init *ssa.Function) {
	// interpret the package initialiser, skipping imported packages' initialisers
	t.e.skipExtInit = true
	t.interpret(init, nil, nil)
}

func stackTrace() string {
	buf := make([]byte, 4096)
	n := runtimeStack(buf)
	return string(buf[:n])
}

// ---------------------------------------------------------------- happens-before

func vcJoin(a, b []int) []int {
	if len(b) > len(a) {
		a = append(a, make([]int, len(b)-len(a))...)
	}
	for i, v := range b {
		if v > a[i] {
			a[i] = v
		}
	}
	return a
}

func vcGet(a []int, i int) int {
	if i < len(a) {
		return a[i]
	}
	return 0
}

func (t *Thread) tick() {
	for len(t.vc) <= t.id {
		t.vc = append(t.vc, 0)
	}
	for len(t.vcAll) <= t.id {
		t.vcAll = append(t.vcAll, 0)
	}
	t.vc[t.id]++
	t.vcAll[t.id]++
}

// acquire/release transfer happens-before through a sync object's clocks.
type hbClock struct{ vc, vcAll []int }

func (t *Thread) release(c *hbClock) {
	c.vc = vcJoin(c.vc, t.vc)
	c.vcAll = vcJoin(c.vcAll, t.vcAll)
	t.tick()
}

func (t *Thread) acquire(c *hbClock) {
	t.vc = vcJoin(t.vc, c.vc)
	t.vcAll = vcJoin(t.vcAll, c.vcAll)
}

// accessCell performs the race check for a read or write of c by t.
func (t *Thread) accessCell(c *Cell, write bool, pos token.Pos) {
	e := t.e
	if c.guard != nil {
		e.checkGuard(t, c, write, pos)
	}
	if !e.multi || e.inPkgInit > 0 {
		// package initialisers run before main in a real program: their accesses happen-before
		// everything (the engine merely runs them lazily, on whichever thread touches the package first)
		return
	}
	clk := t.vc
	if c.harness {
		clk = t.vcAll
	}
	me := vcGet(clk, t.id)
	if me == 0 {
		t.tick()
		me = vcGet(clk, t.id)
	}
	report := func(other epoch, what string) {
		kind := "race"
		if c.harness {
			// unsynchronised access to harness monitor state is a harness bug, not a finding
			if e.abort == nil {
				e.abort = &pathAbort{"fatal", fmt.Sprintf("harness monitor state accessed without vMon: %s vs %s", t.posOf(other.pos), t.posOf(pos))}
			}
			panic(*e.abort)
		}
		m, ok := e.modelNow(nil)
		if ok {
			a, b := t.posOf(other.pos), t.posOf(pos)
			e.violation(kind, "race:"+a+"~"+b, fmt.Sprintf("data race (%s): T%d at %s vs T%d at %s", what, other.tid, a, t.id, b), m)
		}
	}
	if c.lastW.clk != 0 && c.lastW.tid != t.id && vcGet(clk, c.lastW.tid) < c.lastW.clk {
		report(c.lastW, "write-"+map[bool]string{true: "write", false: "read"}[write])
	}
	if write {
		for _, r := range c.reads {
			if r.tid != t.id && vcGet(clk, r.tid) < r.clk {
				report(r, "read-write")
			}
		}
		c.reads = c.reads[:0]
		c.lastW = epoch{t.id, me, pos}
	} else {
		for i, r := range c.reads {
			if r.tid == t.id {
				c.reads[i].clk = me
				return
			}
		}
		c.reads = append(c.reads, epoch{t.id, me, pos})
	}
}

// ---------------------------------------------------------------- vGuardedBy monitor (C13)

type guardSpec struct {
	mu *Cell // the RWMutex struct cell
}

func (e *Exec) checkGuard(t *Thread, c *Cell, write bool, pos token.Pos) {
	st := e.syncObjs[c.guard.mu]
	held := false
	wheld := false
	if st != nil {
		if st.writer == t.id+1 {
			held, wheld = true, true
		}
		if st.readers[t.id] > 0 {
			held = true
		}
	}
	if !held {
		m, ok := e.modelNow(nil)
		if ok {
			e.violation("assert", "lock-discipline:unlocked-access", fmt.Sprintf("guarded data accessed without the lock at %s", t.posOf(pos)), m)
		}
	} else if write && !wheld {
		m, ok := e.modelNow(nil)
		if ok {
			e.violation("assert", "lock-discipline:write-under-rlock", fmt.Sprintf("guarded data written under a read lock at %s", t.posOf(pos)), m)
		}
	}
	if st != nil {
		st.accessesInSection++
	}
	e.guardAccesses++
}

var errorType = types.Universe.Lookup("error").Type()

func (t *Thread) opPos() string {
	if t.op == nil {
		return "?"
	}
	if t.op.pos != "" {
		return t.op.pos
	}
	return t.posOf(t.op.tpos)
}
