package main

// Symbolic interpreter for go/ssa. One Exec = one path; control flow forks through
// Exec.choose (re-execution with a decision trail), data stays symbolic in *Term.

import (
	"fmt"
	"go/constant"
	"go/token"
	"go/types"
	"strings"

	"golang.org/x/tools/go/ssa"
)

type frame struct {
	fn      *ssa.Function
	locals  map[ssa.Value]Value
	env     []Value
	defers  []deferred
	block   *ssa.BasicBlock
	prev    *ssa.BasicBlock
	symVis  map[*ssa.BasicBlock]int
	result  Value
	harness bool
	own     int
}

type deferred struct {
	fv   Value // *Closure (incl. builtin)
	args []Value
	pos  token.Pos
}

// goPanic is a Go-level panic travelling through interpreted frames.
type goPanic struct {
	val    Value
	reason string
	pos    string
}

// pathAbort ends the current path (not a Go panic).
type pathAbort struct {
	kind string // "infeasible" "unsupported" "unwind" "budget" "killed" "fatal" "sleepblocked"
	msg  string
}

func (e *Exec) unsupported(msg string) {
	panic(pathAbort{"unsupported", msg})
}

func (t *Thread) posOf(p token.Pos) string {
	if !p.IsValid() {
		return "?"
	}
	ps := t.e.eng.prog.Fset.Position(p)
	f := ps.Filename
	if i := strings.LastIndex(f, "/"); i >= 0 {
		f = f[i+1:]
	}
	return fmt.Sprintf("%s:%d", f, ps.Line)
}

func (t *Thread) goPanicf(pos token.Pos, reason string, val Value) {
	panic(&goPanic{val: val, reason: reason, pos: t.posOf(pos)})
}

// ---------------------------------------------------------------- calls

func (t *Thread) callClosure(fv Value, args []Value, pos token.Pos) Value {
	fv = t.conc(fv)
	c, ok := fv.(*Closure)
	if !ok || c == nil {
		t.goPanicf(pos, "call of nil func", nil)
	}
	if c.builtin != "" {
		return t.callBuiltinClosure(c, args, pos)
	}
	return t.callFn(c.fn, args, c.env, pos)
}

func fnPkg(fn *ssa.Function) *ssa.Package {
	if fn.Pkg != nil {
		return fn.Pkg
	}
	if o := fn.Origin(); o != nil && o.Pkg != nil {
		return o.Pkg
	}
	if p := fn.Parent(); p != nil {
		return fnPkg(p)
	}
	return nil
}

func (t *Thread) callFn(fn *ssa.Function, args []Value, env []Value, pos token.Pos) Value {
	e := t.e
	pkg := fnPkg(fn)
	if pkg == e.eng.pkg && fn.Parent() == nil && fn.Signature.Recv() == nil {
		if h, ok := intrinsics[fn.Name()]; ok {
			return h(t, fn, args, pos)
		}
		if fn.Origin() != nil {
			if r, ok := t.tryGenericIntrinsic(fn, args, pos); ok {
				return r
			}
		}
	}
	if fn.Name() == "init" && pkg != e.eng.pkg && pkg != nil {
		return nil
	}
	if pkg != nil && pkg != e.eng.pkg && purePackages[pkg.Pkg.Path()] && fn.Synthetic == "" {
		e.ensurePkgInit(pkg)
	}
	if pkg != e.eng.pkg && fn.Synthetic == "" || pkg != e.eng.pkg && pkg != nil {
		name := fn.String()
		if h, ok := stubs[name]; ok {
			e.stubUse(name)
			return h(t, fn, args, pos)
		}
		if h := prefixStub(name); h != nil {
			e.stubUse(name)
			return h(t, fn, args, pos)
		}
		if pkg != nil && !purePackages[pkg.Pkg.Path()] {
			e.unsupported("external callee " + name + " at " + t.posOf(pos))
		}
	}
	if fn.Blocks == nil {
		name := fn.String()
		if h, ok := stubs[name]; ok {
			e.stubUse(name)
			return h(t, fn, args, pos)
		}
		e.unsupported("callee without body " + name + " at " + t.posOf(pos))
	}
	return t.interpret(fn, args, env)
}

func (t *Thread) interpret(fn *ssa.Function, args []Value, env []Value) (result Value) {
	e := t.e
	t.depth++
	if t.depth > 4000 {
		panic(pathAbort{"budget", "call depth exceeded in " + fn.String()})
	}
	fr := &frame{fn: fn, locals: make(map[ssa.Value]Value, 16), env: env}
	fr.harness = e.eng.isHarnessFn(fn)
	// recover() is effective only directly inside the deferred function (depth 1), not in its callees
	saveDD := t.deferDepth
	if t.deferDepth > 0 {
		t.deferDepth++
	}
	defer func() { t.deferDepth = saveDD }()
	for i, p := range fn.Params {
		fr.locals[p] = args[i]
	}
	savedFr := t.fr
	t.fr = fr
	normal := false
	defer func() {
		t.depth--
		t.fr = savedFr
		if !fr.harness {
			e.fnOwn[fn] += fr.own
		}
		if normal {
			return
		}
		r := recover()
		gp, ok := r.(*goPanic)
		if !ok {
			panic(r) // engine-level abort: no defers
		}
		// Go panic: run remaining defers (one of them may recover), then keep unwinding.
		t.fr = fr
		recovered := false
		for len(fr.defers) > 0 {
			d := fr.defers[len(fr.defers)-1]
			fr.defers = fr.defers[:len(fr.defers)-1]
			func() {
				defer func() {
					if r2 := recover(); r2 != nil {
						if gp2, ok := r2.(*goPanic); ok {
							gp = gp2
							recovered = false
						} else {
							panic(r2)
						}
					}
				}()
				saveRec, saveDepth, saveFlag := t.recoverable, t.deferDepth, t.recovered
				if !recovered {
					t.recoverable = gp
				}
				t.deferDepth = 1
				t.recovered = false
				t.callClosure(d.fv, d.args, d.pos)
				if t.recovered {
					recovered = true
				}
				t.recoverable, t.deferDepth, t.recovered = saveRec, saveDepth, saveFlag
			}()
		}
		t.fr = savedFr
		if recovered {
			// the function returns normally: through its recover block when it has named results
			result = nil
			if fn.Recover != nil {
				t.fr = fr
				fr.block, fr.prev = fn.Recover, nil
				func() {
					for fr.block != nil {
						t.runBlock(fr)
					}
				}()
				t.fr = savedFr
				result = fr.result
			} else if fn.Signature.Results().Len() > 0 {
				result = e.zero(fn.Signature.Results())
				if fn.Signature.Results().Len() == 1 {
					result = e.zero(fn.Signature.Results().At(0).Type())
				}
			}
			return
		}
		panic(gp)
	}()
	fr.block = fn.Blocks[0]
	for fr.block != nil {
		t.runBlock(fr)
	}
	normal = true
	return fr.result
}

func (t *Thread) runBlock(fr *frame) {
	e := t.e
	b := fr.block
	for _, ins := range b.Instrs {
		e.steps++
		fr.own++
		if e.steps > e.eng.cfg.StepBudget {
			panic(pathAbort{"budget", "instruction budget exceeded"})
		}
		switch in := ins.(type) {
		case *ssa.Phi:
			for i, p := range b.Preds {
				if p == fr.prev {
					fr.locals[in] = t.get(fr, in.Edges[i])
					break
				}
			}
		case *ssa.Jump:
			fr.prev, fr.block = b, b.Succs[0]
			return
		case *ssa.If:
			c := t.get(fr, in.Cond).(*Term)
			var taken bool
			if c.IsConst {
				taken = c.C == 1
				e.foldedBranches++
			} else {
				if fr.symVis == nil {
					fr.symVis = map[*ssa.BasicBlock]int{}
				}
				fr.symVis[b]++
				if fr.symVis[b] > e.unwind {
					panic(pathAbort{"unwind", fmt.Sprintf("unwinding assertion: symbolic branch at %s taken more than %d times in one frame", t.posOf(in.Pos()), e.unwind)})
				}
				i := e.choose("if@"+t.posOf(in.Cond.Pos()), []*Term{c, e.ts.Not(c)})
				taken = i == 0
			}
			if taken {
				fr.prev, fr.block = b, b.Succs[0]
			} else {
				fr.prev, fr.block = b, b.Succs[1]
			}
			return
		case *ssa.Return:
			switch len(in.Results) {
			case 0:
				fr.result = nil
			case 1:
				fr.result = t.get(fr, in.Results[0])
			default:
				tu := make(Tuple, len(in.Results))
				for i, r := range in.Results {
					tu[i] = t.get(fr, r)
				}
				fr.result = tu
			}
			fr.block = nil
			return
		case *ssa.RunDefers:
			for len(fr.defers) > 0 {
				d := fr.defers[len(fr.defers)-1]
				fr.defers = fr.defers[:len(fr.defers)-1]
				t.callClosure(d.fv, d.args, d.pos)
			}
		case *ssa.Panic:
			t.goPanicf(in.Pos(), "explicit panic", t.get(fr, in.X))
		case *ssa.Store:
			addr := t.derefPtr(t.get(fr, in.Addr), in.Pos())
			t.accessCell(addr, true, in.Pos())
			e.storeInto(addr, e.copyVal(t.get(fr, in.Val)))
			if addr.guard != nil {
				if m, ok := addr.v.(*MapObj); ok && m != nil {
					m.cell.guard = addr.guard
				}
			}
		case *ssa.MapUpdate:
			t.mapUpdate(t.get(fr, in.Map), t.get(fr, in.Key), t.get(fr, in.Value), in.Map.Type(), in.Pos())
		case *ssa.Send:
			t.chanSend(t.get(fr, in.Chan), t.get(fr, in.X), in.Pos())
		case *ssa.Go:
			t.goStmt(fr, &in.Call, in.Pos())
		case *ssa.Defer:
			fv, args := t.prepareCall(fr, &in.Call, in.Pos())
			fr.defers = append(fr.defers, deferred{fv, args, in.Pos()})
		case *ssa.DebugRef:
		case ssa.Value:
			fr.locals[in] = t.evalValue(fr, in)
		default:
			e.unsupported(fmt.Sprintf("instruction %T at %s", ins, t.posOf(ins.Pos())))
		}
	}
	e.unsupported("block fell through in " + fr.fn.String())
}

func (t *Thread) get(fr *frame, v ssa.Value) Value {
	switch x := v.(type) {
	case *ssa.Const:
		return t.constValue(x)
	case *ssa.Global:
		return t.e.globalCell(x)
	case *ssa.Function:
		return &Closure{fn: x}
	case *ssa.Builtin:
		return &Closure{builtin: "builtin:" + x.Name()}
	case *ssa.FreeVar:
		for i, fv := range fr.fn.FreeVars {
			if fv == x {
				return fr.env[i]
			}
		}
	}
	if r, ok := fr.locals[v]; ok {
		return r
	}
	panic(fmt.Sprintf("get: no value for %s (%T) in %s", v.Name(), v, fr.fn))
}

func (t *Thread) constValue(c *ssa.Const) Value {
	e := t.e
	if c.Value == nil {
		return e.zero(c.Type())
	}
	switch u := c.Type().Underlying().(type) {
	case *types.Basic:
		switch {
		case u.Info()&types.IsBoolean != 0:
			return e.ts.Bool(constant.BoolVal(c.Value))
		case u.Info()&types.IsInteger != 0:
			w := intWidth(u)
			if u.Info()&types.IsUnsigned != 0 {
				return e.ts.BV(w, c.Uint64())
			}
			return e.ts.BV(w, uint64(c.Int64()))
		case u.Info()&types.IsFloat != 0:
			if u.Kind() == types.Float32 {
				return e.ts.FPConst(32, c.Float64())
			}
			return e.ts.FPConst(64, c.Float64())
		case u.Info()&types.IsString != 0:
			return e.ts.BV(32, uint64(e.eng.intern(constant.StringVal(c.Value))))
		}
	}
	e.unsupported("constant of type " + c.Type().String())
	return nil
}

// ensurePkgInit runs the initialiser of an interpreted library package once per path.
func (e *Exec) ensurePkgInit(p *ssa.Package) {
	if e.pkgInit == nil {
		e.pkgInit = map[*ssa.Package]bool{}
	}
	if e.pkgInit[p] {
		return
	}
	e.pkgInit[p] = true
	if init := p.Func("init"); init != nil {
		st := &Thread{id: 0, e: e}
		if e.cur != nil {
			st = e.cur
		} else if len(e.threads) > 0 {
			st = e.threads[0]
		}
		save, saveMon := st.fr, st.inMon
		e.inPkgInit++
		st.inMon = false
		st.interpret(init, nil, nil)
		e.inPkgInit--
		st.fr, st.inMon = save, saveMon
	}
}

func (e *Exec) globalCell(g *ssa.Global) *Cell {
	if c, ok := e.globals[g]; ok {
		return c
	}
	et := g.Type().(*types.Pointer).Elem()
	var c *Cell
	if g.Pkg != e.eng.pkg && g.Pkg != nil && purePackages[g.Pkg.Pkg.Path()] {
		// a package interpreted from source: its globals are ordinary cells set up by its own init
		c = e.newCell(e.zero(et))
		e.globals[g] = c
		e.ensurePkgInit(g.Pkg)
		return e.globals[g]
	}
	if g.Pkg != e.eng.pkg {
		if types.Identical(et, errorType) {
			e.errSeq++
			c = e.newCell(Iface{t: engineErrPtr, v: &ErrObj{msg: e.ts.BV(32, uint64(e.eng.intern("ext:"+g.String()))), name: g.String(), id: -int(e.eng.intern("ext:" + g.String()))}})
		} else {
			e.unsupported("external global " + g.String())
		}
	} else {
		c = e.newCell(e.zero(et))
		c.harness = e.eng.isHarnessPos(g.Pos())
	}
	e.globals[g] = c
	return c
}

// prepareCall evaluates the callee and arguments of a call instruction.
func (t *Thread) prepareCall(fr *frame, c *ssa.CallCommon, pos token.Pos) (Value, []Value) {
	e := t.e
	var args []Value
	var fv Value
	if c.IsInvoke() {
		recv := t.conc(t.get(fr, c.Value))
		ifc, ok := recv.(Iface)
		if !ok {
			panic(fmt.Sprintf("invoke on non-interface %T", recv))
		}
		if ifc.t == nil {
			t.goPanicf(pos, "nil interface method call "+c.Method.Name(), nil)
		}
		if nm := nativeMethod(ifc, c.Method.Name()); nm != "" {
			fv = &Closure{builtin: nm, recv: ifc.v}
		} else {
			m := e.eng.prog.LookupMethod(ifc.t, c.Method.Pkg(), c.Method.Name())
			if m == nil {
				e.unsupported(fmt.Sprintf("no method %s on %s", c.Method.Name(), ifc.t))
			}
			fv = &Closure{fn: m}
			args = append(args, ifc.v)
		}
	} else {
		fv = t.get(fr, c.Value)
		if _, isB := c.Value.(*ssa.Builtin); isB {
			tys := make([]types.Type, len(c.Args))
			for i, a := range c.Args {
				tys[i] = a.Type()
			}
			fv.(*Closure).recv = tys
		}
	}
	for _, a := range c.Args {
		args = append(args, t.get(fr, a))
	}
	return fv, args
}

func (t *Thread) evalCall(fr *frame, in *ssa.Call) Value {
	fv, args := t.prepareCall(fr, &in.Call, in.Pos())
	return t.callClosure(fv, args, in.Pos())
}

// ---------------------------------------------------------------- value instructions

func (t *Thread) evalValue(fr *frame, v ssa.Value) Value {
	e := t.e
	switch in := v.(type) {
	case *ssa.Call:
		return t.evalCall(fr, in)
	case *ssa.Alloc:
		save := e.allocHarness
		e.allocHarness = fr.harness
		c := e.newCell(e.zero(in.Type().(*types.Pointer).Elem()))
		e.allocHarness = save
		return c
	case *ssa.UnOp:
		return t.unop(fr, in)
	case *ssa.BinOp:
		return t.binop(in.Op, t.get(fr, in.X), t.get(fr, in.Y), in.X.Type(), in.Pos())
	case *ssa.MakeInterface:
		return Iface{t: in.X.Type(), v: e.copyVal(t.get(fr, in.X))}
	case *ssa.ChangeInterface:
		return t.get(fr, in.X)
	case *ssa.ChangeType:
		return t.get(fr, in.X)
	case *ssa.Convert:
		return t.convert(t.get(fr, in.X), in.X.Type(), in.Type(), in.Pos())
	case *ssa.TypeAssert:
		return t.typeAssert(in, t.get(fr, in.X))
	case *ssa.Extract:
		return t.get(fr, in.Tuple).(Tuple)[in.Index]
	case *ssa.FieldAddr:
		p := t.derefPtr(t.get(fr, in.X), in.Pos())
		s, ok := p.v.(*Struct)
		if !ok {
			panic(fmt.Sprintf("FieldAddr on %T at %s", p.v, t.posOf(in.Pos())))
		}
		return s.f[in.Field]
	case *ssa.Field:
		s := t.get(fr, in.X).(*Struct)
		return e.copyVal(s.f[in.Field].v)
	case *ssa.IndexAddr:
		return t.indexAddr(t.get(fr, in.X), t.get(fr, in.Index).(*Term), in.Index.Type(), in.Pos())
	case *ssa.Index:
		x := t.get(fr, in.X)
		if a, ok := x.(*Array); ok {
			i := t.concIndex(t.get(fr, in.Index).(*Term), len(a.e), in.Pos())
			return e.copyVal(a.e[i].v)
		}
		e.unsupported("Index on non-array")
	case *ssa.Lookup:
		return t.lookup(in, t.get(fr, in.X), t.get(fr, in.Index))
	case *ssa.MakeMap:
		save := e.allocHarness
		e.allocHarness = fr.harness
		m := &MapObj{vt: in.Type().Underlying().(*types.Map).Elem()}
		m.cell = e.newCell(nil)
		e.allocHarness = save
		return m
	case *ssa.MakeSlice:
		n := t.concInt(t.get(fr, in.Len).(*Term), "makeslice.len", in.Pos())
		et := in.Type().Underlying().(*types.Slice).Elem()
		var c int
		var capT *Term
		if ct := t.get(fr, in.Cap).(*Term); ct.IsConst || in.Cap == in.Len {
			c = t.concInt(ct, "makeslice.cap", in.Pos())
		} else {
			// symbolic capacity (e.g. sized by a user-supplied budget): the runtime's range check is a
			// fork; in range the capacity is len+0 .. len+K-1 exactly, or "at least len+K" (window)
			const K = 4
			if ct.S.W != 64 {
				ct = e.ts.SExt(ct, 64)
			}
			esz := types.SizesFor("gc", "amd64").Sizeof(et)
			// the runtime panics above maxAlloc (2^48 bytes on linux/amd64) and dies with "fatal error:
			// out of memory" for anything no machine can back (taken as > 2^40 bytes): both are "the run
			// neither returns a result nor an error", reported as a panic
			limit := int64(1) << 40
			if esz > 1 {
				limit /= int64(esz)
			}
			ts := e.ts
			nT := ts.BV(64, uint64(int64(n)))
			inRange := ts.And(ts.Not(ts.BVCmp("bvslt", ct, nT)), ts.Not(ts.BVCmp("bvslt", ts.BV(64, uint64(limit)), ct)))
			gs := []*Term{ts.Not(inRange)}
			for j := 0; j < K; j++ {
				gs = append(gs, ts.Eq(ct, ts.BV(64, uint64(int64(n+j)))))
			}
			gs = append(gs, ts.And(inRange, ts.Not(ts.BVCmp("bvslt", ct, ts.BV(64, uint64(int64(n+K)))))))
			i := e.choose("makeslice.cap@"+t.posOf(in.Pos()), gs)
			switch {
			case i == 0:
				t.goPanicf(in.Pos(), "makeslice: cap out of range (or out of memory)", nil)
			case i <= K:
				c = n + i - 1
			default:
				c = n + K
				capT = ct
			}
		}
		if n < 0 || c < n {
			t.goPanicf(in.Pos(), "makeslice: len out of range", nil)
		}
		if esz := types.SizesFor("gc", "amd64").Sizeof(et); int64(c) > (int64(1)<<40)/max(esz, 1) {
			t.goPanicf(in.Pos(), "makeslice: cap out of range (or out of memory)", nil)
		}
		if c > 4096 {
			e.unsupported("makeslice too large")
		}
		save := e.allocHarness
		e.allocHarness = fr.harness
		cells := make([]*Cell, c)
		for i := range cells {
			cells[i] = e.newCell(e.zero(et))
		}
		e.allocHarness = save
		return Slice{cells: cells, n: n, capT: capT}
	case *ssa.MakeChan:
		n := t.concInt(t.get(fr, in.Size).(*Term), "makechan.size", in.Pos())
		return e.newChan(n)
	case *ssa.MakeClosure:
		env := make([]Value, len(in.Bindings))
		for i, b := range in.Bindings {
			env[i] = t.get(fr, b)
		}
		return &Closure{fn: in.Fn.(*ssa.Function), env: env}
	case *ssa.Slice:
		return t.sliceOp(fr, in)
	case *ssa.Range:
		return t.rangeStart(t.get(fr, in.X), in.Pos())
	case *ssa.Next:
		return t.rangeNext(in, t.get(fr, in.Iter))
	case *ssa.Select:
		return t.selectOp(fr, in)
	case *ssa.SliceToArrayPointer, *ssa.MultiConvert:
		e.unsupported(fmt.Sprintf("%T", v))
	}
	e.unsupported(fmt.Sprintf("value instruction %T at %s", v, t.posOf(v.Pos())))
	return nil
}

// conc forces a Union to one of its alternatives (forking).
func (t *Thread) conc(v Value) Value {
	for {
		u, ok := v.(*Union)
		if !ok {
			return v
		}
		if u.chosen > 0 {
			v = u.alts[u.chosen-1].v
			continue
		}
		gs := make([]*Term, len(u.alts))
		for i, a := range u.alts {
			gs[i] = a.g
		}
		i := t.e.choose("union", gs)
		u.chosen = i + 1
		v = u.alts[i].v
	}
}

func (t *Thread) derefPtr(v Value, pos token.Pos) *Cell {
	v = t.conc(v)
	p, ok := v.(*Cell)
	if !ok {
		panic(fmt.Sprintf("deref of %T at %s", v, t.posOf(pos)))
	}
	if p == nil {
		t.goPanicf(pos, "nil pointer dereference", nil)
	}
	return p
}

func (t *Thread) unop(fr *frame, in *ssa.UnOp) Value {
	e := t.e
	x := t.get(fr, in.X)
	switch in.Op {
	case token.MUL: // load
		p := t.derefPtr(x, in.Pos())
		t.accessCell(p, false, in.Pos())
		return e.copyVal(p.v)
	case token.NOT:
		return e.ts.Not(x.(*Term))
	case token.SUB:
		tm := x.(*Term)
		if tm.S.K == SFP {
			return e.ts.FPNeg(tm)
		}
		return e.ts.BVNeg(tm)
	case token.XOR:
		return e.ts.BVNot(x.(*Term))
	case token.ARROW:
		return t.chanRecv(x, in.CommaOk, in.X.Type().Underlying().(*types.Chan).Elem(), in.Pos())
	}
	e.unsupported("unop " + in.Op.String())
	return nil
}

func (t *Thread) binop(op token.Token, x, y Value, xt types.Type, pos token.Pos) Value {
	e := t.e
	ts := e.ts
	switch op {
	case token.EQL:
		return t.eqValue(x, y, xt, pos)
	case token.NEQ:
		return ts.Not(t.eqValue(x, y, xt, pos))
	}
	a, ok1 := x.(*Term)
	b, ok2 := y.(*Term)
	if !ok1 || !ok2 {
		e.unsupported(fmt.Sprintf("binop %s on %T,%T at %s", op, x, y, t.posOf(pos)))
	}
	bt, _ := xt.Underlying().(*types.Basic)
	if bt != nil && bt.Info()&types.IsString != 0 {
		switch op {
		case token.ADD:
			if a.IsConst && b.IsConst {
				return ts.BV(32, uint64(e.eng.intern(e.eng.strOf(uint32(a.C))+e.eng.strOf(uint32(b.C)))))
			}
			return ts.UF("str_concat", StrSort, a, b)
		case token.LSS, token.LEQ, token.GTR, token.GEQ:
			if a.IsConst && b.IsConst {
				x, y := e.eng.strOf(uint32(a.C)), e.eng.strOf(uint32(b.C))
				switch op {
				case token.LSS:
					return ts.Bool(x < y)
				case token.LEQ:
					return ts.Bool(x <= y)
				case token.GTR:
					return ts.Bool(x > y)
				default:
					return ts.Bool(x >= y)
				}
			}
			// symbolic strings: an uninterpreted strict order (the lexicographic order itself is not modelled)
			lt := func(p, q *Term) *Term {
				if p == q {
					return ts.Bool(false)
				}
				return ts.UF("str_lt", BoolSort, p, q)
			}
			switch op {
			case token.LSS:
				return lt(a, b)
			case token.GTR:
				return lt(b, a)
			case token.LEQ:
				return ts.Not(lt(b, a))
			default:
				return ts.Not(lt(a, b))
			}
		}
		e.unsupported("string binop " + op.String() + " at " + t.posOf(pos))
	}
	if a.S.K == SFP {
		switch op {
		case token.LSS:
			return ts.FPCmp("fp.lt", a, b)
		case token.LEQ:
			return ts.FPCmp("fp.leq", a, b)
		case token.GTR:
			return ts.FPCmp("fp.lt", b, a)
		case token.GEQ:
			return ts.FPCmp("fp.leq", b, a)
		case token.ADD:
			return ts.FPArith("fp.add", a, b)
		case token.SUB:
			return ts.FPArith("fp.sub", a, b)
		case token.MUL:
			return ts.FPArith("fp.mul", a, b)
		case token.QUO:
			return ts.FPArith("fp.div", a, b)
		}
		e.unsupported("float binop " + op.String())
	}
	if a.S.K == SBool {
		switch op {
		case token.AND, token.LAND:
			return ts.And(a, b)
		case token.OR, token.LOR:
			return ts.Or(a, b)
		}
		e.unsupported("bool binop " + op.String())
	}
	signed := isSigned(xt)
	switch op {
	case token.ADD:
		return ts.BVBin("bvadd", a, b)
	case token.SUB:
		return ts.BVBin("bvsub", a, b)
	case token.MUL:
		return ts.BVBin("bvmul", a, b)
	case token.QUO, token.REM:
		z := ts.Eq(b, ts.BV(b.S.W, 0))
		if !z.IsFalse() {
			if i := e.choose("divzero", []*Term{ts.Not(z), z}); i == 1 {
				t.goPanicf(pos, "integer divide by zero", nil)
			}
		}
		switch {
		case op == token.QUO && signed:
			return ts.BVBin("bvsdiv", a, b)
		case op == token.QUO:
			return ts.BVBin("bvudiv", a, b)
		case signed:
			return ts.BVBin("bvsrem", a, b)
		default:
			return ts.BVBin("bvurem", a, b)
		}
	case token.AND:
		return ts.BVBin("bvand", a, b)
	case token.OR:
		return ts.BVBin("bvor", a, b)
	case token.XOR:
		return ts.BVBin("bvxor", a, b)
	case token.AND_NOT:
		return ts.BVBin("bvand", a, ts.BVNot(b))
	case token.SHL, token.SHR:
		// shift count may have a different width
		if b.S.W < a.S.W {
			b = ts.ZExt(b, a.S.W)
		} else if b.S.W > a.S.W {
			if b.IsConst {
				c := b.C
				if c > uint64(a.S.W) {
					c = uint64(a.S.W)
				}
				b = ts.BV(a.S.W, c)
			} else {
				e.unsupported("wide symbolic shift count")
			}
		}
		if op == token.SHL {
			return ts.BVBin("bvshl", a, b)
		}
		if signed {
			return ts.BVBin("bvashr", a, b)
		}
		return ts.BVBin("bvlshr", a, b)
	case token.LSS:
		if signed {
			return ts.BVCmp("bvslt", a, b)
		}
		return ts.BVCmp("bvult", a, b)
	case token.LEQ:
		if signed {
			return ts.BVCmp("bvsle", a, b)
		}
		return ts.BVCmp("bvule", a, b)
	case token.GTR:
		if signed {
			return ts.BVCmp("bvslt", b, a)
		}
		return ts.BVCmp("bvult", b, a)
	case token.GEQ:
		if signed {
			return ts.BVCmp("bvsle", b, a)
		}
		return ts.BVCmp("bvule", b, a)
	}
	e.unsupported("binop " + op.String())
	return nil
}

func comparableType(t types.Type) bool { return types.Comparable(t) }

// eqValue implements Go's == for the static type xt. It may raise the Go run-time panic
// "comparing uncomparable type" for interface operands.
func (t *Thread) eqValue(x, y Value, xt types.Type, pos token.Pos) *Term {
	e := t.e
	ts := e.ts
	x, y = t.conc(x), t.conc(y)
	switch a := x.(type) {
	case *Term:
		b := y.(*Term)
		if a.S.K == SFP {
			return ts.FPCmp("fp.eq", a, b)
		}
		return ts.Eq(a, b)
	case nil:
		return ts.Bool(isNilValue(y))
	case *Cell:
		if y == nil {
			return ts.Bool(a == nil)
		}
		return ts.Bool(a == y.(*Cell))
	case *MapObj:
		if y == nil {
			return ts.Bool(a == nil)
		}
		b := y.(*MapObj)
		return ts.Bool(a == nil && b == nil)
	case *ChanObj:
		if y == nil {
			return ts.Bool(a == nil)
		}
		return ts.Bool(a == y.(*ChanObj))
	case *Closure:
		if y == nil {
			return ts.Bool(a == nil)
		}
		b := y.(*Closure)
		return ts.Bool(a == nil && b == nil)
	case Slice:
		if y == nil {
			return ts.Bool(a.isNil)
		}
		if b, ok := y.(Slice); ok && (a.isNil || b.isNil) {
			return ts.Bool(a.isNil && b.isNil)
		}
		e.unsupported("slice comparison")
	case Iface:
		if y == nil {
			return ts.Bool(a.t == nil)
		}
		b, ok := y.(Iface)
		if !ok {
			e.unsupported(fmt.Sprintf("iface compared with %T", y))
		}
		if a.t == nil || b.t == nil {
			return ts.Bool(a.t == nil && b.t == nil)
		}
		if !types.Identical(a.t, b.t) {
			return ts.Bool(false)
		}
		if !comparableType(a.t) {
			t.goPanicf(pos, "runtime error: comparing uncomparable type "+a.t.String(), nil)
		}
		return t.eqValue(a.v, b.v, a.t, pos)
	case *Struct:
		b := y.(*Struct)
		st := xt.Underlying().(*types.Struct)
		r := ts.Bool(true)
		for i := range a.f {
			r = ts.And(r, t.eqValue(a.f[i].v, b.f[i].v, st.Field(i).Type(), pos))
		}
		return r
	case *Array:
		b := y.(*Array)
		et := xt.Underlying().(*types.Array).Elem()
		r := ts.Bool(true)
		for i := range a.e {
			r = ts.And(r, t.eqValue(a.e[i].v, b.e[i].v, et, pos))
		}
		return r
	case *ErrObj:
		b, ok := y.(*ErrObj)
		return ts.Bool(ok && a == b)
	case *RType:
		b, ok := y.(*RType)
		if !ok {
			return ts.Bool(false)
		}
		if a.t == nil || b.t == nil {
			return ts.Bool(a.t == nil && b.t == nil)
		}
		return ts.Bool(types.Identical(a.t, b.t))
	case *Opaque:
		b, ok := y.(*Opaque)
		return ts.Bool(ok && a == b)
	}
	e.unsupported(fmt.Sprintf("== on %T at %s", x, t.posOf(pos)))
	return nil
}

func (t *Thread) convert(x Value, from, to types.Type, pos token.Pos) Value {
	e := t.e
	ts := e.ts
	fb, _ := from.Underlying().(*types.Basic)
	tb, _ := to.Underlying().(*types.Basic)
	if fb == nil || tb == nil {
		// pointer / unsafe conversions etc.
		if _, ok := x.(*Cell); ok {
			return x
		}
		e.unsupported(fmt.Sprintf("convert %s -> %s at %s", from, to, t.posOf(pos)))
	}
	a := x.(*Term)
	fi, ti := fb.Info(), tb.Info()
	switch {
	case fi&types.IsString != 0 && ti&types.IsString != 0:
		return a
	case fi&types.IsInteger != 0 && ti&types.IsInteger != 0:
		fw, tw := intWidth(fb), intWidth(tb)
		if tw < fw {
			return ts.Extract(a, tw-1, 0)
		}
		if fi&types.IsUnsigned != 0 {
			return ts.ZExt(a, tw)
		}
		return ts.SExt(a, tw)
	case fi&types.IsInteger != 0 && ti&types.IsFloat != 0:
		w := 64
		if tb.Kind() == types.Float32 {
			w = 32
		}
		return ts.FPFromInt(a, fi&types.IsUnsigned == 0, w)
	case fi&types.IsFloat != 0 && ti&types.IsFloat != 0:
		w := 64
		if tb.Kind() == types.Float32 {
			w = 32
		}
		return ts.FPFromFP(a, w)
	case fi&types.IsFloat != 0 && ti&types.IsInteger != 0:
		return ts.FPToInt(a, ti&types.IsUnsigned == 0, intWidth(tb))
	case fi&types.IsBoolean != 0 && ti&types.IsBoolean != 0:
		return a
	}
	e.unsupported(fmt.Sprintf("convert %s -> %s at %s", from, to, t.posOf(pos)))
	return nil
}

func (t *Thread) typeAssert(in *ssa.TypeAssert, x Value) Value {
	e := t.e
	x = t.conc(x)
	ifc, ok := x.(Iface)
	if !ok {
		panic(fmt.Sprintf("typeassert on %T", x))
	}
	okv := false
	var res Value
	if ifc.t != nil {
		if it, isI := in.AssertedType.Underlying().(*types.Interface); isI {
			okv = types.Implements(ifc.t, it)
			if !okv {
				// pointer-receiver method sets are handled by types.Implements on the dynamic type itself
			}
			res = ifc
		} else {
			okv = types.Identical(ifc.t, in.AssertedType)
			res = ifc.v
		}
	}
	if !okv {
		res = e.zero(in.AssertedType)
	}
	if in.CommaOk {
		return Tuple{res, e.ts.Bool(okv)}
	}
	if !okv {
		t.goPanicf(in.Pos(), fmt.Sprintf("interface conversion: %v is not %s", e.typeName(ifc.t), in.AssertedType), nil)
	}
	return res
}

func (e *Exec) typeName(t types.Type) string {
	if t == nil {
		return "nil"
	}
	return t.String()
}

// concInt concretises a symbolic integer by forking over its feasible values (bounded).
func (t *Thread) concInt(x *Term, what string, pos token.Pos) int {
	e := t.e
	if x.IsConst {
		return int(sext(x.C, x.S.W))
	}
	return e.concretise(x, what+"@"+t.posOf(pos))
}

// concIndex returns a concrete in-range index or raises the Go panic (forking when symbolic).
func (t *Thread) concIndex(idx *Term, n int, pos token.Pos) int {
	e := t.e
	if idx.S.W != 64 {
		idx = e.ts.SExt(idx, 64)
	}
	if idx.IsConst {
		i := int(int64(idx.C))
		if i < 0 || i >= n {
			t.goPanicf(pos, fmt.Sprintf("index out of range [%d] with length %d", i, n), nil)
		}
		return i
	}
	gs := make([]*Term, n+1)
	oob := e.ts.Bool(true)
	for i := 0; i < n; i++ {
		gs[i] = e.ts.Eq(idx, e.ts.BV(64, uint64(i)))
		oob = e.ts.And(oob, e.ts.Not(gs[i]))
	}
	gs[n] = oob
	i := e.choose("index@"+t.posOf(pos), gs)
	if i == n {
		t.goPanicf(pos, fmt.Sprintf("index out of range [symbolic] with length %d", n), nil)
	}
	return i
}

func (t *Thread) indexAddr(x Value, idx *Term, it types.Type, pos token.Pos) Value {
	x = t.conc(x)
	if !isSigned(it) && idx.S.W < 64 {
		idx = t.e.ts.ZExt(idx, 64)
	}
	switch a := x.(type) {
	case Slice:
		i := t.concIndex(idx, a.n, pos)
		return a.cells[i]
	case *Cell:
		if a == nil {
			t.goPanicf(pos, "nil pointer dereference", nil)
		}
		arr := a.v.(*Array)
		i := t.concIndex(idx, len(arr.e), pos)
		return arr.e[i]
	}
	t.e.unsupported(fmt.Sprintf("IndexAddr on %T", x))
	return nil
}

func (t *Thread) sliceOp(fr *frame, in *ssa.Slice) Value {
	e := t.e
	x := t.conc(t.get(fr, in.X))
	geti := func(v ssa.Value, def int) int {
		if v == nil {
			return def
		}
		return t.concInt(t.get(fr, v).(*Term), "slice.bound", in.Pos())
	}
	switch a := x.(type) {
	case Slice:
		lo := geti(in.Low, 0)
		hi := geti(in.High, a.n)
		mx := geti(in.Max, len(a.cells))
		if a.capT != nil && (hi > len(a.cells) || mx > len(a.cells)) {
			e.unsupported("reslicing beyond the modelled window of a symbolic capacity")
		}
		if lo < 0 || hi < lo || hi > len(a.cells) || mx < hi || mx > len(a.cells) {
			t.goPanicf(in.Pos(), "slice bounds out of range", nil)
		}
		if a.isNil {
			return a
		}
		if a.capT != nil && in.Max == nil {
			return Slice{cells: a.cells[lo:mx], n: hi - lo, capT: e.ts.BVBin("bvsub", a.capT, e.ts.BV(64, uint64(int64(lo))))}
		}
		return Slice{cells: a.cells[lo:mx], n: hi - lo}
	case *Cell:
		if a == nil {
			t.goPanicf(in.Pos(), "nil pointer dereference", nil)
		}
		arr := a.v.(*Array)
		lo := geti(in.Low, 0)
		hi := geti(in.High, len(arr.e))
		mx := geti(in.Max, len(arr.e))
		if lo < 0 || hi < lo || hi > len(arr.e) || mx < hi || mx > len(arr.e) {
			t.goPanicf(in.Pos(), "slice bounds out of range", nil)
		}
		return Slice{cells: arr.e[lo:mx], n: hi - lo}
	}
	e.unsupported(fmt.Sprintf("Slice on %T at %s", x, t.posOf(in.Pos())))
	return nil
}

// ---------------------------------------------------------------- maps

// keyEq decides (forking when symbolic) whether two map keys are equal.
func (t *Thread) keyEq(a, b Value, kt types.Type, pos token.Pos) bool {
	c := t.eqValue(a, b, kt, pos)
	if c.IsConst {
		return c.C == 1
	}
	return t.e.choose("mapkey@"+t.posOf(pos), []*Term{c, t.e.ts.Not(c)}) == 0
}

func (t *Thread) checkHashable(k Value, pos token.Pos) {
	if ifc, ok := k.(Iface); ok && ifc.t != nil && !comparableType(ifc.t) {
		t.goPanicf(pos, "runtime error: hash of unhashable type "+ifc.t.String(), nil)
	}
}

func (t *Thread) mapFind(m *MapObj, k Value, kt types.Type, pos token.Pos) *mapEnt {
	t.checkHashable(k, pos)
	for _, en := range m.ents {
		if t.keyEq(en.k, k, kt, pos) {
			return en
		}
	}
	return nil
}

func (t *Thread) mapUpdate(mv, k, v Value, mt types.Type, pos token.Pos) {
	e := t.e
	mv = t.conc(mv)
	m := mv.(*MapObj)
	if m == nil {
		t.goPanicf(pos, "assignment to entry in nil map", nil)
	}
	k = t.conc(k)
	kt := mt.Underlying().(*types.Map).Key()
	t.accessCell(m.cell, true, pos)
	if en := t.mapFind(m, k, kt, pos); en != nil {
		en.c.v = e.copyVal(v)
		return
	}
	save := e.allocHarness
	e.allocHarness = m.cell.harness
	m.ents = append(m.ents, &mapEnt{k: k, c: e.newCell(e.copyVal(v))})
	e.allocHarness = save
}

func (t *Thread) mapDelete(mv, k Value, mt types.Type, pos token.Pos) {
	mv = t.conc(mv)
	m := mv.(*MapObj)
	if m == nil {
		return
	}
	k = t.conc(k)
	kt := mt.Underlying().(*types.Map).Key()
	t.accessCell(m.cell, true, pos)
	t.checkHashable(k, pos)
	for i, en := range m.ents {
		if t.keyEq(en.k, k, kt, pos) {
			m.ents = append(append([]*mapEnt{}, m.ents[:i]...), m.ents[i+1:]...)
			return
		}
	}
}

func (t *Thread) lookup(in *ssa.Lookup, x, k Value) Value {
	e := t.e
	x = t.conc(x)
	mt, ok := in.X.Type().Underlying().(*types.Map)
	if !ok {
		e.unsupported("string index")
	}
	m := x.(*MapObj)
	var res Value
	found := false
	if m != nil {
		k = t.conc(k)
		t.accessCell(m.cell, false, in.Pos())
		if en := t.mapFind(m, k, mt.Key(), in.Pos()); en != nil {
			res = e.copyVal(en.c.v)
			found = true
		}
	}
	if !found {
		res = e.zero(mt.Elem())
	}
	if in.CommaOk {
		return Tuple{res, e.ts.Bool(found)}
	}
	return res
}

type mapIter struct {
	m    *MapObj
	ents []*mapEnt
	i    int
}

func (t *Thread) rangeStart(x Value, pos token.Pos) Value {
	x = t.conc(x)
	m, ok := x.(*MapObj)
	if !ok {
		t.e.unsupported("range over non-map")
	}
	it := &mapIter{m: m}
	if m != nil {
		t.accessCell(m.cell, false, pos)
		it.ents = append(it.ents, m.ents...)
	}
	return it
}

func (t *Thread) rangeNext(in *ssa.Next, itv Value) Value {
	e := t.e
	it := itv.(*mapIter)
	for it.i < len(it.ents) {
		en := it.ents[it.i]
		it.i++
		// skip entries deleted meanwhile
		alive := false
		for _, cur := range it.m.ents {
			if cur == en {
				alive = true
				break
			}
		}
		if !alive {
			continue
		}
		t.accessCell(it.m.cell, false, in.Pos())
		return Tuple{e.ts.Bool(true), en.k, e.copyVal(en.c.v)}
	}
	tt := in.Type().(*types.Tuple)
	var kz, vz Value
	if tt.At(1).Type() != nil {
		if _, inv := tt.At(1).Type().(*types.Basic); !(inv && tt.At(1).Type().(*types.Basic).Kind() == types.Invalid) {
			kz = e.zero(tt.At(1).Type())
		}
	}
	if b, isB := tt.At(2).Type().(*types.Basic); !(isB && b.Kind() == types.Invalid) {
		vz = e.zero(tt.At(2).Type())
	}
	return Tuple{e.ts.Bool(false), kz, vz}
}

// ---------------------------------------------------------------- builtins

func (t *Thread) callBuiltinClosure(c *Closure, args []Value, pos token.Pos) Value {
	e := t.e
	ts := e.ts
	name := c.builtin
	if !strings.HasPrefix(name, "builtin:") {
		return callNative(t, c, args, pos)
	}
	switch name[len("builtin:"):] {
	case "len":
		switch a := t.conc(args[0]).(type) {
		case Slice:
			return ts.BV(64, uint64(a.n))
		case *MapObj:
			if a == nil {
				return ts.BV(64, 0)
			}
			t.accessCell(a.cell, false, pos)
			return ts.BV(64, uint64(len(a.ents)))
		case *Term: // string
			if a.IsConst {
				return ts.BV(64, uint64(len(e.eng.strOf(uint32(a.C)))))
			}
			l := ts.UF("str_len", BV64, a)
			e.assume(ts.BVCmp("bvsle", ts.BV(64, 0), l))
			return l
		case *ChanObj:
			if a == nil {
				return ts.BV(64, 0)
			}
			return ts.BV(64, uint64(len(a.buf)))
		case *Array:
			return ts.BV(64, uint64(len(a.e)))
		case *Cell:
			if arr, ok := a.v.(*Array); ok {
				return ts.BV(64, uint64(len(arr.e)))
			}
		}
		e.unsupported(fmt.Sprintf("len of %T", args[0]))
	case "cap":
		switch a := t.conc(args[0]).(type) {
		case Slice:
			if a.capT != nil {
				return a.capT
			}
			return ts.BV(64, uint64(len(a.cells)))
		case *ChanObj:
			if a == nil {
				return ts.BV(64, 0)
			}
			return ts.BV(64, uint64(a.cap))
		}
		e.unsupported("cap")
	case "append":
		s := t.conc(args[0]).(Slice)
		add, ok := t.conc(args[1]).(Slice)
		if !ok {
			e.unsupported("append of non-slice (string?)")
		}
		if add.n == 0 {
			return s
		}
		if s.n+add.n <= len(s.cells) {
			for i := 0; i < add.n; i++ {
				t.accessCell(s.cells[s.n+i], true, pos)
				e.storeInto(s.cells[s.n+i], e.copyVal(add.cells[i].v))
			}
			return Slice{cells: s.cells, n: s.n + add.n, capT: s.capT}
		}
		if s.capT != nil {
			e.unsupported("append beyond the modelled window of a symbolic capacity")
		}
		nc := 2 * len(s.cells)
		if nc < s.n+add.n {
			nc = s.n + add.n
		}
		save := e.allocHarness
		e.allocHarness = t.fr != nil && t.fr.harness
		cells := make([]*Cell, nc)
		for i := 0; i < s.n; i++ {
			cells[i] = e.newCell(e.copyVal(s.cells[i].v))
		}
		for i := 0; i < add.n; i++ {
			cells[s.n+i] = e.newCell(e.copyVal(add.cells[i].v))
		}
		// spare capacity: zero of element kind, approximated by copying a zeroed clone lazily
		et := c.recv.([]types.Type)[0].Underlying().(*types.Slice).Elem()
		for i := s.n + add.n; i < nc; i++ {
			cells[i] = e.newCell(e.zero(et))
		}
		e.allocHarness = save
		return Slice{cells: cells, n: s.n + add.n}
	case "copy":
		dst := t.conc(args[0]).(Slice)
		src, ok := t.conc(args[1]).(Slice)
		if !ok {
			e.unsupported("copy from string")
		}
		n := dst.n
		if src.n < n {
			n = src.n
		}
		tmp := make([]Value, n)
		for i := 0; i < n; i++ {
			tmp[i] = e.copyVal(src.cells[i].v)
		}
		for i := 0; i < n; i++ {
			t.accessCell(dst.cells[i], true, pos)
			e.storeInto(dst.cells[i], tmp[i])
		}
		return ts.BV(64, uint64(n))
	case "delete":
		t.mapDelete(args[0], args[1], c.recv.([]types.Type)[0], pos)
		return nil
	case "close":
		t.chanClose(args[0], pos)
		return nil
	case "clear":
		switch a := t.conc(args[0]).(type) {
		case *MapObj:
			if a != nil {
				t.accessCell(a.cell, true, pos)
				a.ents = nil
			}
			return nil
		case Slice:
			for i := 0; i < a.n; i++ {
				c := a.cells[i]
				t.accessCell(c, true, pos)
				e.storeInto(c, e.zeroLike(c.v))
			}
			return nil
		}
		e.unsupported("clear on this operand")
	case "panic":
		t.goPanicf(pos, "explicit panic", args[0])
	case "print", "println":
		return nil
	case "min", "max":
		tys := c.recv.([]types.Type)
		acc, ok := args[0].(*Term)
		if !ok || acc.S.K != SBV {
			e.unsupported("min/max on non-integer operands")
		}
		signed := isSigned(tys[0])
		for _, a := range args[1:] {
			b := a.(*Term)
			var lt *Term
			if signed {
				lt = ts.BVCmp("bvslt", b, acc)
			} else {
				lt = ts.BVCmp("bvult", b, acc)
			}
			if name[len("builtin:"):] == "min" {
				acc = ts.Ite(lt, b, acc)
			} else {
				acc = ts.Ite(lt, acc, b)
			}
		}
		return acc
	case "recover":
		// meaningful only when called directly by a deferred function while its frame's caller panics
		if t.recoverable != nil && t.deferDepth == 2 {
			gp := t.recoverable
			t.recoverable = nil
			t.recovered = true
			if gp.val != nil {
				return gp.val
			}
			e.errSeq++
			return Iface{t: engineErrPlain, v: &ErrObj{msg: e.freshStr("runtimeerr"), id: e.errSeq, name: "runtime error: " + gp.reason}}
		}
		return Iface{}
	}
	e.unsupported("builtin " + name)
	return nil
}

// zeroLike returns a zero value shaped like v (used for spare slice capacity).
func (e *Exec) zeroLike(v Value) Value {
	switch x := v.(type) {
	case *Term:
		switch x.S.K {
		case SBool:
			return e.ts.Bool(false)
		case SBV:
			return e.ts.BV(x.S.W, 0)
		case SFP:
			return e.ts.FPBits(x.S.W, 0)
		}
	case *Cell:
		return (*Cell)(nil)
	case Iface:
		return Iface{}
	case Slice:
		return Slice{isNil: true}
	case *MapObj:
		return (*MapObj)(nil)
	case *Closure:
		return (*Closure)(nil)
	case *ChanObj:
		return (*ChanObj)(nil)
	case *Struct:
		n := &Struct{f: make([]*Cell, len(x.f))}
		for i, c := range x.f {
			n.f[i] = e.newCell(e.zeroLike(c.v))
		}
		return n
	case *Array:
		n := &Array{e: make([]*Cell, len(x.e))}
		for i, c := range x.e {
			n.e[i] = e.newCell(e.zeroLike(c.v))
		}
		return n
	}
	return nil
}
