package main

// Synchronisation primitives, channels, select, timers (virtual time).

import (
	"fmt"
	"go/token"
	"go/types"

	"golang.org/x/tools/go/ssa"
)

type SyncState struct {
	hb      hbClock
	rhb     hbClock // reader-release clock (RWMutex)
	writer  int     // tid+1 of the write-lock holder, 0 = none
	readers map[int]int
	nread   int
	counter int // WaitGroup
	accessesInSection int
	sections int
	key      *wgKey
}

func (e *Exec) syncOf(c *Cell) *SyncState {
	st := e.syncObjs[c]
	if st == nil {
		st = &SyncState{readers: map[int]int{}}
		st.key = &wgKey{st: st, e: e}
		e.syncObjs[c] = st
	}
	return st
}

func (t *Thread) syncRecv(args []Value, pos token.Pos) (*Cell, *SyncState) {
	c := t.derefPtr(args[0], pos)
	return c, t.e.syncOf(c)
}

func stubLock(t *Thread, fn *ssa.Function, args []Value, pos token.Pos) Value {
	c, st := t.syncRecv(args, pos)
	t.visible(&SyncOp{kind: "lock", obj: c, tpos: pos, enabled: func() bool { return st.writer == 0 && st.nread == 0 }})
	if st.writer != 0 || st.nread != 0 {
		// single-thread fast path cannot get here with the lock free; a held lock means self-deadlock
		t.blockForever("lock", c, pos, func() bool { return st.writer == 0 && st.nread == 0 })
	}
	st.writer = t.id + 1
	st.sections++
	t.acquire(&st.hb)
	t.acquire(&st.rhb)
	return nil
}

// blockForever parks a thread whose operation is disabled even on the fast path.
func (t *Thread) blockForever(kind string, obj interface{}, pos token.Pos, en func() bool) {
	t.e.multi = true
	t.visible(&SyncOp{kind: kind, obj: obj, tpos: pos, enabled: en})
}

func stubUnlock(t *Thread, fn *ssa.Function, args []Value, pos token.Pos) Value {
	c, st := t.syncRecv(args, pos)
	t.visible(&SyncOp{kind: "unlock", obj: c, tpos: pos, enabled: func() bool { return true }})
	if st.writer == 0 {
		t.goPanicf(pos, "sync: unlock of unlocked mutex", nil)
	}
	st.writer = 0
	t.release(&st.hb)
	return nil
}

func stubRLock(t *Thread, fn *ssa.Function, args []Value, pos token.Pos) Value {
	c, st := t.syncRecv(args, pos)
	t.visible(&SyncOp{kind: "rlock", obj: c, read: true, tpos: pos, enabled: func() bool { return st.writer == 0 }})
	if st.writer != 0 {
		t.blockForever("rlock", c, pos, func() bool { return st.writer == 0 })
	}
	st.readers[t.id]++
	st.nread++
	st.sections++
	t.acquire(&st.hb)
	return nil
}

func stubRUnlock(t *Thread, fn *ssa.Function, args []Value, pos token.Pos) Value {
	c, st := t.syncRecv(args, pos)
	t.visible(&SyncOp{kind: "runlock", obj: c, read: true, tpos: pos, enabled: func() bool { return true }})
	if st.readers[t.id] == 0 {
		if st.nread == 0 {
			t.goPanicf(pos, "sync: RUnlock of unlocked RWMutex", nil)
		}
		// unlocking a read lock taken by another thread is legal in Go; model by decrementing any
		for id, n := range st.readers {
			if n > 0 {
				st.readers[id]--
				break
			}
		}
	} else {
		st.readers[t.id]--
	}
	st.nread--
	t.release(&st.rhb)
	return nil
}

func stubWGAdd(t *Thread, fn *ssa.Function, args []Value, pos token.Pos) Value {
	_, st := t.syncRecv(args, pos)
	d := t.concInt(args[1].(*Term), "wg.add", pos)
	acc := "w"
	if d > 0 {
		acc = "add"
	}
	t.visible(&SyncOp{kind: "wg.add", obj: st.key, acc: acc, tpos: pos, enabled: func() bool { return true }})
	st.counter += d
	if st.counter < 0 {
		t.goPanicf(pos, "sync: negative WaitGroup counter", nil)
	}
	t.release(&st.hb)
	return nil
}

func stubWGDone(t *Thread, fn *ssa.Function, args []Value, pos token.Pos) Value {
	_, st := t.syncRecv(args, pos)
	t.visible(&SyncOp{kind: "wg.done", obj: st.key, acc: "add", tpos: pos, enabled: func() bool { return true }})
	st.counter--
	if st.counter < 0 {
		t.goPanicf(pos, "sync: negative WaitGroup counter", nil)
	}
	t.release(&st.hb)
	return nil
}

func stubWGWait(t *Thread, fn *ssa.Function, args []Value, pos token.Pos) Value {
	_, st := t.syncRecv(args, pos)
	t.visible(&SyncOp{kind: "wg.wait", obj: st.key, tpos: pos, enabled: func() bool { return st.counter == 0 }})
	t.acquire(&st.hb)
	return nil
}

// ---------------------------------------------------------------- atomics (sync/atomic functions on *int32/*int64)

func stubAtomicLoad(t *Thread, fn *ssa.Function, args []Value, pos token.Pos) Value {
	c := t.derefPtr(args[0], pos)
	st := t.e.syncOf(c)
	t.visible(&SyncOp{kind: "atomic.load", obj: c, read: true, tpos: pos, enabled: func() bool { return true }})
	t.acquire(&st.hb)
	return c.v
}

func stubAtomicStore(t *Thread, fn *ssa.Function, args []Value, pos token.Pos) Value {
	c := t.derefPtr(args[0], pos)
	st := t.e.syncOf(c)
	t.visible(&SyncOp{kind: "atomic.store", obj: c, tpos: pos, enabled: func() bool { return true }})
	c.v = args[1]
	t.release(&st.hb)
	return nil
}

func stubAtomicAdd(t *Thread, fn *ssa.Function, args []Value, pos token.Pos) Value {
	c := t.derefPtr(args[0], pos)
	st := t.e.syncOf(c)
	t.visible(&SyncOp{kind: "atomic.add", obj: c, tpos: pos, enabled: func() bool { return true }})
	t.acquire(&st.hb)
	c.v = t.e.ts.BVBin("bvadd", c.v.(*Term), args[1].(*Term))
	t.release(&st.hb)
	return c.v
}

// ---------------------------------------------------------------- channels

type ChanObj struct {
	buf    []Value
	sendHB []hbClock
	cap    int
	closed bool
	hb     hbClock // close → receive-of-zero
	timer  *Timer
	id     int
	everSent bool // an unbuffered channel that is only ever closed is read-only for its receivers
}

func (e *Exec) newChan(n int) *ChanObj {
	e.cellSeq++
	return &ChanObj{cap: n, id: e.cellSeq}
}

func (t *Thread) chanSend(cv, x Value, pos token.Pos) {
	cv = t.conc(cv)
	c := cv.(*ChanObj)
	if c == nil {
		t.blockForever("send-nil", new(int), pos, func() bool { return false })
	}
	c.everSent = true
	en := func() bool { return t.e.sendEnabled(c, t) }
	t.visible(&SyncOp{kind: "send", obj: c, acc: "enq", tpos: pos, enabled: en})
	if !en() {
		t.blockForever("send", c, pos, en)
	}
	if c.closed {
		t.goPanicf(pos, "send on closed channel", nil)
	}
	var h hbClock
	t.release(&h)
	c.buf = append(c.buf, t.e.copyVal(x))
	c.sendHB = append(c.sendHB, h)
}

func (c *ChanObj) recvReady() bool { return c != nil && (len(c.buf) > 0 || c.closed) }

func (t *Thread) doRecv(c *ChanObj, elemZero func() Value) (Value, bool) {
	if len(c.buf) > 0 {
		v := c.buf[0]
		h := c.sendHB[0]
		c.buf = c.buf[1:]
		c.sendHB = c.sendHB[1:]
		t.acquire(&h)
		return v, true
	}
	// closed
	t.acquire(&c.hb)
	return elemZero(), false
}

func (t *Thread) chanRecv(cv Value, commaOk bool, et types.Type, pos token.Pos) Value {
	e := t.e
	cv = t.conc(cv)
	c := cv.(*ChanObj)
	if c == nil {
		t.blockForever("recv-nil", new(int), pos, func() bool { return false })
	}
	racc := "deq"
	if c.cap == 0 && !c.everSent {
		racc = "r" // a channel that is never sent to (only closed): receiving just reads its state
	}
	t.visible(&SyncOp{kind: "recv", obj: c, acc: racc, tpos: pos, enabled: c.recvReady})
	if !c.recvReady() {
		t.blockForever("recv", c, pos, c.recvReady)
	}
	v, ok := t.doRecv(c, func() Value { return e.zero(et) })
	if commaOk {
		return Tuple{v, e.ts.Bool(ok)}
	}
	return v
}

func (t *Thread) chanClose(cv Value, pos token.Pos) {
	cv = t.conc(cv)
	c := cv.(*ChanObj)
	if c == nil {
		t.goPanicf(pos, "close of nil channel", nil)
	}
	t.visible(&SyncOp{kind: "close", obj: c, tpos: pos, enabled: func() bool { return true }})
	if c.closed {
		t.goPanicf(pos, "close of closed channel", nil)
	}
	c.closed = true
	t.release(&c.hb)
}

func (t *Thread) selectOp(fr *frame, in *ssa.Select) Value {
	e := t.e
	type st struct {
		c    *ChanObj
		send bool
		val  Value
	}
	states := make([]st, len(in.States))
	for i, s := range in.States {
		cv := t.conc(t.get(fr, s.Chan))
		states[i].c = cv.(*ChanObj)
		if s.Dir == types.SendOnly {
			states[i].send = true
			states[i].val = t.get(fr, s.Send)
			if states[i].c != nil {
				states[i].c.everSent = true
			}
		}
	}
	ready := func() []int {
		var r []int
		for i, s := range states {
			if s.c == nil {
				continue
			}
			if s.send {
				if e.sendEnabled(s.c, t) {
					r = append(r, i)
				}
			} else if s.c.recvReady() {
				r = append(r, i)
			}
		}
		return r
	}
	// a select is one visible operation on the set of its channels; use the first channel as its object
	// unless the channels differ, in which case it is treated as dependent on everything (obj=nil).
	var objs []interface{}
	var accs []string
	for _, s := range states {
		if s.c != nil {
			objs = append(objs, s.c)
			switch {
			case s.send:
				accs = append(accs, "enq")
			case s.c.cap == 0 && !s.c.everSent:
				// receiving from a channel that is only ever closed (never sent to) only reads it
				accs = append(accs, "r")
			default:
				accs = append(accs, "deq")
			}
		}
	}
	if objs == nil {
		objs = []interface{}{new(int)}
		accs = []string{"r"}
	}
	en := func() bool { return !in.Blocking || len(ready()) > 0 }
	t.visible(&SyncOp{kind: "select", objs: objs, accs: accs, tpos: in.Pos(), enabled: en})
	r := ready()
	res := make(Tuple, 2)
	nrecv := 0
	for _, s := range in.States {
		if s.Dir == types.RecvOnly {
			nrecv++
		}
	}
	recvs := make([]Value, 0, nrecv)
	for _, s := range in.States {
		if s.Dir == types.RecvOnly {
			recvs = append(recvs, e.zero(s.Chan.Type().Underlying().(*types.Chan).Elem()))
		}
	}
	if len(r) == 0 {
		res[0] = e.ts.BV(64, ^uint64(0))
		res[1] = e.ts.Bool(false)
		return append(res, recvs...)
	}
	k := 0
	if len(r) > 1 {
		k = e.choose("select@"+t.posOf(in.Pos()), make([]*Term, len(r)))
	}
	idx := r[k]
	s := states[idx]
	res[0] = e.ts.BV(64, uint64(idx))
	res[1] = e.ts.Bool(false)
	if s.send {
		if s.c.closed {
			t.goPanicf(in.Pos(), "send on closed channel", nil)
		}
		var h hbClock
		t.release(&h)
		s.c.buf = append(s.c.buf, e.copyVal(s.val))
		s.c.sendHB = append(s.c.sendHB, h)
	} else {
		ri := 0
		for j := 0; j < idx; j++ {
			if in.States[j].Dir == types.RecvOnly {
				ri++
			}
		}
		v, ok := t.doRecv(s.c, func() Value { return recvs[ri] })
		recvs[ri] = v
		res[1] = e.ts.Bool(ok)
	}
	return append(res, recvs...)
}

// ---------------------------------------------------------------- goroutines

func (t *Thread) goStmt(fr *frame, c *ssa.CallCommon, pos token.Pos) {
	e := t.e
	fv, args := t.prepareCall(fr, c, pos)
	child := e.newThread(fmt.Sprintf("go@%s", t.posOf(pos)), func(ct *Thread) {
		ct.callClosure(fv, args, pos)
	})
	// symmetry class: same go statement, same callee, identical argument identities
	child.spawnKey = fmt.Sprintf("%s|%s", t.posOf(pos), e.valueKey(fv))
	for _, a := range args {
		child.spawnKey += "," + e.valueKey(a)
	}
	child.isFresh = true
	// happens-before: everything before the go statement is visible to the child
	for _, th := range []*Thread{t} {
		th.tick()
	}
	child.vc = append([]int{}, t.vc...)
	child.vcAll = append([]int{}, t.vcAll...)
	child.tick()
	t.tick()
	// run the child's thread-local prefix up to its first visible operation
	e.resume(child)
	if e.abort != nil {
		panic(*e.abort)
	}
}

// ---------------------------------------------------------------- virtual time

type Timer struct {
	at    *Term // virtual instant (bv64)
	ch    *ChanObj
	fn    Value // for vAfterFunc
	fired bool
	seq   int
	period *Term // ticker: re-armed after every tick
	owner  *Cell // the time.Ticker it belongs to
}

// fireTimer advances virtual time to the earliest pending timer and fires it. Called only when
// no thread is enabled. Comparisons between symbolic instants fork.
func (e *Exec) fireTimer() bool {
	var pend []*Timer
	for _, tm := range e.timers {
		if !tm.fired {
			pend = append(pend, tm)
		}
	}
	if len(pend) == 0 {
		return false
	}
	best := pend[0]
	for _, tm := range pend[1:] {
		// strictly earlier? ties: the earlier-created timer fires first
		lt := e.ts.BVCmp("bvslt", tm.at, best.at)
		if lt.IsConst {
			if lt.C == 1 {
				best = tm
			}
			continue
		}
		if e.choose("timer-order", []*Term{e.ts.Not(lt), lt}) == 1 {
			best = tm
		}
	}
	best.fired = true
	// time never runs backwards
	later := e.ts.BVCmp("bvslt", e.now, best.at)
	e.now = e.ts.Ite(later, best.at, e.now)
	if best.ch != nil && (best.period == nil || len(best.ch.buf) < 1) {
		best.ch.buf = append(best.ch.buf, e.now)
		best.ch.sendHB = append(best.ch.sendHB, hbClock{})
	}
	if best.period != nil {
		// ticker: next tick one period after this one
		at := e.ts.BVBin("bvadd", best.at, best.period)
		e.assume(e.ts.BVCmp("bvsle", best.at, at))
		nt := &Timer{at: at, seq: len(e.timers), ch: best.ch, period: best.period, owner: best.owner}
		e.timers = append(e.timers, nt)
		if best.owner != nil {
			e.timerObjs[best.owner] = nt
		}
	}
	if best.fn != nil {
		fn := best.fn
		th := e.newThread("afterfunc", func(ct *Thread) { ct.callClosure(fn, nil, token.NoPos) })
		th.vc = []int{}
		th.vcAll = []int{}
		th.tick()
		e.resume(th)
	}
	return true
}

func (e *Exec) addTimer(d *Term) *Timer {
	ts := e.ts
	pos := ts.BVCmp("bvslt", ts.BV(64, 0), d)
	dd := ts.Ite(pos, d, ts.BV(64, 0))
	at := ts.BVBin("bvadd", e.now, dd)
	// virtual instants do not overflow (waits near MaxInt64 are outside the claim)
	e.assume(ts.BVCmp("bvsle", e.now, at))
	tm := &Timer{at: at, seq: len(e.timers)}
	e.timers = append(e.timers, tm)
	return tm
}

func stubTimeAfter(t *Thread, fn *ssa.Function, args []Value, pos token.Pos) Value {
	e := t.e
	tm := e.addTimer(args[0].(*Term))
	tm.ch = e.newChan(1)
	tm.ch.timer = tm
	e.timersCreated++
	return tm.ch
}

func stubTimeSleep(t *Thread, fn *ssa.Function, args []Value, pos token.Pos) Value {
	e := t.e
	d := args[0].(*Term)
	nonpos := e.ts.BVCmp("bvsle", d, e.ts.BV(64, 0))
	if nonpos.IsTrue() {
		return nil
	}
	if !nonpos.IsFalse() {
		if e.choose("sleep<=0", []*Term{nonpos, e.ts.Not(nonpos)}) == 0 {
			return nil
		}
	}
	tm := e.addTimer(d)
	tm.ch = e.newChan(1)
	e.timersCreated++
	e.sleeps++
	c := tm.ch
	t.blockForever("sleep", c, pos, c.recvReady)
	t.doRecv(c, func() Value { return nil })
	return nil
}

// sendEnabled: a buffered channel accepts a value while it has room; an unbuffered one when a
// receiver is parked on it (rendezvous: the value is handed over through a one-slot buffer that the
// waiting receiver then takes). Sending on a closed channel is "enabled" and panics.
func (e *Exec) sendEnabled(c *ChanObj, self *Thread) bool {
	if c.closed {
		return true
	}
	if c.cap > 0 {
		return len(c.buf) < c.cap
	}
	if len(c.buf) > 0 {
		return false
	}
	for _, o := range e.threads {
		if o == self || o.done || o.op == nil {
			continue
		}
		switch o.op.kind {
		case "recv":
			if o.op.obj == interface{}(c) {
				return true
			}
		case "select":
			for i, ob := range o.op.objs {
				if ob == interface{}(c) && o.op.accs[i] != "enq" {
					return true
				}
			}
		}
	}
	return false
}
