package main

// Second-solver cross-check: a sample of the assertion verdicts (every counterexample, and the first
// K "unsat" answers per worker and harness) is re-asked to cvc5 on a freshly printed script.

import (
	"fmt"
	"strings"
)

// standaloneScript prints declarations, definitions and assertions for the given terms from scratch
// (it does not use or touch the per-path `sent` flags of the primary solver).
func standaloneScript(ts *TermStore, asserts []*Term) []string {
	var out []string
	seen := map[*Term]bool{}
	ufSeen := map[string]bool{}
	var visit func(t *Term)
	visit = func(t *Term) {
		if t.IsConst || seen[t] {
			return
		}
		seen[t] = true
		for _, a := range t.Args {
			visit(a)
		}
		switch t.Op {
		case "var":
			out = append(out, fmt.Sprintf("(declare-const %s %s)", t.Name, t.S.SMT()))
		case "uf":
			if !ufSeen[t.Name] {
				ufSeen[t.Name] = true
				d := ts.ufs[t.Name]
				as := make([]string, len(d.args))
				for i, a := range d.args {
					as[i] = a.SMT()
				}
				out = append(out, fmt.Sprintf("(declare-fun %s (%s) %s)", d.name, strings.Join(as, " "), d.ret.SMT()))
			}
			out = append(out, fmt.Sprintf("(define-fun t%d () %s %s)", t.id, t.S.SMT(), t.bodySMT()))
		default:
			out = append(out, fmt.Sprintf("(define-fun t%d () %s %s)", t.id, t.S.SMT(), t.bodySMT()))
		}
	}
	for _, a := range asserts {
		visit(a)
	}
	for _, a := range asserts {
		out = append(out, "(assert "+a.ref()+")")
	}
	return out
}

// crossCheck re-asks pc ∧ extra to the second solver and compares with the primary verdict.
func (e *Exec) crossCheck(extra *Term, primary SatResult) {
	s2 := e.solver2
	if s2 == nil || s2.dead {
		return
	}
	terms := append([]*Term{}, e.pc...)
	if extra != nil {
		terms = append(terms, extra)
	}
	s2.send("(push 1)")
	for _, l := range standaloneScript(e.ts, terms) {
		s2.send(l)
	}
	s2.send("(check-sat)")
	lines, err := s2.roundTrip()
	s2.send("(pop 1)")
	e.crossChecked++
	if err != nil {
		e.unknowns = append(e.unknowns, "cross-check solver failed: "+err.Error())
		return
	}
	got := Unknown
	for _, l := range lines {
		if strings.Contains(l, "(error") {
			e.unknowns = append(e.unknowns, "cross-check solver error: "+l)
			return
		}
	}
	if len(lines) > 0 {
		switch lines[len(lines)-1] {
		case "sat":
			got = Sat
		case "unsat":
			got = Unsat
		}
	}
	if got == Unknown {
		e.crossUnknown++
		return
	}
	if got != primary {
		e.unknowns = append(e.unknowns, fmt.Sprintf("SOLVER DISAGREEMENT: z3 says %s, cvc5 says %s", primary, got))
		e.crossDisagree++
	}
}
