package main

// `flytsym check <property> <tier>`: run the property's harnesses, replay witnesses and
// counterexamples natively, write evidence, print VIOLATION / KNOWN-FINDING / INCONCLUSIVE lines.

import (
	"bytes"
	"crypto/sha1"
	"encoding/json"
	"fmt"
	"os"
	"os/exec"
	"path/filepath"
	"sort"
	"strconv"
	"strings"
	"time"
)

type HarnessSpec struct {
	Fn        string         `json:"fn"`
	Quick     map[string]int `json:"quick"`
	Thorough  map[string]int `json:"thorough"`
	Covers    []string       `json:"covers"`
	Only      string         `json:"only,omitempty"` // "quick" | "thorough" | ""
	Native    *bool          `json:"native,omitempty"`
	NoSymmetry bool          `json:"no_symmetry,omitempty"`
	TimeoutQ  int            `json:"timeout_quick,omitempty"`
	TimeoutT  int            `json:"timeout_thorough,omitempty"`
	Note      string         `json:"note,omitempty"`
	Optional  bool           `json:"optional,omitempty"` // white-box harness: skipped when it does not compile against the tree
	Steps     int            `json:"steps,omitempty"` // per-path instruction budget (concrete long runs); 0 = the tier's default
	BestEffort bool          `json:"best_effort,omitempty"` // beyond-the-bound supplement: an unfinished exploration is recorded, not INCONCLUSIVE
}

type CheckSpec struct {
	Harnesses   []HarnessSpec `json:"harnesses"`
	Bounds      map[string]string `json:"bounds"`
	Outside     []string      `json:"outside_bounds"`
	Assumptions []string      `json:"assumptions"`
}

type replayTape struct {
	Harness string            `json:"harness"`
	Params  map[string]int    `json:"params"`
	Nondet  map[string]uint64 `json:"nondet"`
	Strings map[string]string `json:"strings"`
	Expect  string            `json:"expect,omitempty"`
	Kind    string            `json:"kind,omitempty"`
	Sig     string            `json:"sig,omitempty"`
	Msg     string            `json:"msg,omitempty"`
	Trail   []int             `json:"trail,omitempty"`
	Free    []int             `json:"free,omitempty"`
	Property string           `json:"property,omitempty"`
	Readable map[string]string `json:"readable,omitempty"`
}

type nativeOutcome struct {
	Failed       []string   `json:"failed"`
	Covers       []string   `json:"covers"`
	Asserts      []string   `json:"asserts"`
	Log          []LogEntry `json:"log"`
	Panic        string     `json:"panic"`
	AssumeFailed bool       `json:"assume_failed"`
	Missing      []string   `json:"missing"`
	Fail         string     `json:"fail"`
}

type nativeRunner struct {
	raceTwin *nativeRunner
	bin     string
	workDir string
	err     error
	built   bool
	race    bool
}

func goEnv() []string {
	return append(os.Environ(), "GOFLAGS=-mod=mod", "GOPROXY=off", "GOSUMDB=off", "GOTOOLCHAIN=local")
}

func (nr *nativeRunner) build(g *Engine) error {
	if nr.built {
		return nr.err
	}
	nr.built = true
	nr.workDir = filepath.Join(verifDir, "work", fmt.Sprintf("replay-%d-%v", os.Getpid(), nr.race))
	os.MkdirAll(nr.workDir, 0o755)
	// registry of harness entry points
	var names []string
	for name, m := range g.pkg.Members {
		if strings.HasPrefix(name, "VH_") {
			if _, ok := m.(interface{ Name() string }); ok {
				names = append(names, name)
			}
		}
	}
	sort.Strings(names)
	var sb strings.Builder
	sb.WriteString("//go:build verif && verifnative\n\npackage flyt\n\nvar vHarnesses = map[string]func(){\n")
	for _, n := range names {
		fmt.Fprintf(&sb, "\t%q: %s,\n", n, n)
	}
	sb.WriteString("}\n")
	reg := filepath.Join(nr.workDir, "registry.go")
	os.WriteFile(reg, []byte(sb.String()), 0o644)
	ov := overlayFiles(true, g.only)
	ov[filepath.Join(repoDir, "zz_verif_registry.go")] = reg
	ovj, _ := json.Marshal(map[string]interface{}{"Replace": ov})
	ovp := filepath.Join(nr.workDir, "overlay.json")
	os.WriteFile(ovp, ovj, 0o644)
	nr.bin = filepath.Join(nr.workDir, "replay.test")
	args := []string{"test", "-c", "-vet=off", "-tags", "verif verifnative", "-overlay", ovp, "-o", nr.bin}
	if nr.race {
		args = append(args, "-race")
	}
	args = append(args, ".")
	cmd := exec.Command("go", args...)
	cmd.Dir = repoDir
	cmd.Env = goEnv()
	out, err := cmd.CombinedOutput()
	if err != nil {
		nr.err = fmt.Errorf("native build failed: %v\n%s", err, out)
	}
	return nr.err
}

func (nr *nativeRunner) cleanup() {
	if nr.raceTwin != nil {
		nr.raceTwin.cleanup()
	}
	if nr.workDir != "" {
		os.RemoveAll(nr.workDir)
	}
}

func (nr *nativeRunner) run(tape *replayTape, extraEnv ...string) (*nativeOutcome, error) {
	tp := filepath.Join(nr.workDir, fmt.Sprintf("tape-%d.json", time.Now().UnixNano()))
	b, _ := json.Marshal(tape)
	os.WriteFile(tp, b, 0o644)
	defer os.Remove(tp)
	return runTapeFile(nr.bin, tp, extraEnv...)
}

func runTapeFile(bin, tp string, extraEnv ...string) (*nativeOutcome, error) {
	cmd := exec.Command(bin, "-test.run", "^TestVReplay$", "-test.v", "-test.timeout", "60s")
	cmd.Dir = repoDir
	cmd.Env = append(append(os.Environ(), "VERIF_TAPE="+tp), extraEnv...)
	var buf bytes.Buffer
	cmd.Stdout = &buf
	cmd.Stderr = &buf
	err := cmd.Run()
	for _, l := range strings.Split(buf.String(), "\n") {
		if strings.HasPrefix(l, "VOUT ") {
			var o nativeOutcome
			if jerr := json.Unmarshal([]byte(l[5:]), &o); jerr != nil {
				return nil, jerr
			}
			return &o, nil
		}
	}
	if strings.Contains(buf.String(), "all goroutines are asleep - deadlock") {
		return &nativeOutcome{Fail: "watchdog: Go runtime reports: all goroutines are asleep - deadlock"}, nil
	}
	if strings.Contains(buf.String(), "WARNING: DATA RACE") {
		return &nativeOutcome{Fail: "race detector: DATA RACE"}, nil
	}
	if i := strings.Index(buf.String(), "fatal error: "); i >= 0 {
		// unrecoverable runtime failure (out of memory, concurrent map writes, stack overflow): the
		// process died inside the harness
		msg := buf.String()[i:]
		if j := strings.IndexByte(msg, '\n'); j >= 0 {
			msg = msg[:j]
		}
		return &nativeOutcome{Panic: msg}, nil
	}
	if dbg := os.Getenv("VERIF_KEEP_FAILED"); dbg != "" {
		os.MkdirAll(dbg, 0o755)
		b, _ := os.ReadFile(tp)
		n := time.Now().UnixNano()
		os.WriteFile(filepath.Join(dbg, fmt.Sprintf("tape-%d.json", n)), b, 0o644)
		os.WriteFile(filepath.Join(dbg, fmt.Sprintf("out-%d.txt", n)), buf.Bytes(), 0o644)
	}
	return nil, fmt.Errorf("native replay produced no outcome (%v): %s", err, tail(buf.String(), 1500))
}

func tail(s string, n int) string {
	if len(s) > n {
		return s[len(s)-n:]
	}
	return s
}

// makeTape converts a model into a native tape using the nondet keys of a concrete re-execution.
func (g *Engine) makeTape(harness string, params map[string]int, keys []nondetKey, model map[string]uint64) *replayTape {
	t := &replayTape{Harness: harness, Params: params, Nondet: map[string]uint64{}, Strings: map[string]string{}, Readable: map[string]string{}}
	for _, k := range keys {
		bits := model[k.name]
		if k.isStr {
			t.Strings[k.key] = g.strOf(uint32(bits))
			t.Readable[k.key] = fmt.Sprintf("%q", g.strOf(uint32(bits)))
		} else {
			t.Nondet[k.key] = bits
			switch k.s.K {
			case SBool:
				t.Readable[k.key] = fmt.Sprint(bits != 0)
			case SFP:
				t.Readable[k.key] = fmt.Sprintf("float-bits %#x", bits)
			default:
				t.Readable[k.key] = fmt.Sprint(sext(bits, k.s.W))
			}
		}
	}
	return t
}

type knownFinding struct {
	kind, property, sig, text string
}

func loadKnown() []knownFinding {
	b, err := os.ReadFile(filepath.Join(verifDir, "KNOWN_FINDINGS.txt"))
	if err != nil {
		return nil
	}
	var out []knownFinding
	for _, l := range strings.Split(string(b), "\n") {
		l = strings.TrimSpace(l)
		if l == "" || strings.HasPrefix(l, "#") {
			continue
		}
		var kf knownFinding
		switch {
		case strings.HasPrefix(l, "known:"):
			kf.kind = "known"
			l = strings.TrimSpace(l[6:])
		case strings.HasPrefix(l, "fixed:"):
			kf.kind = "fixed"
			l = strings.TrimSpace(l[6:])
		default:
			continue
		}
		for _, f := range strings.Fields(l) {
			if strings.HasPrefix(f, "property=") {
				kf.property = f[9:]
			} else if strings.HasPrefix(f, "sig=") {
				kf.sig = f[4:]
			}
		}
		kf.text = l
		out = append(out, kf)
	}
	return out
}

func cmdCheck(args []string) int {
	if len(args) >= 2 && args[0] == "replay" {
		return cmdReplay(args[1])
	}
	if len(args) < 2 {
		fmt.Fprintln(os.Stderr, "usage: flytsym check <property> quick|thorough")
		return 2
	}
	prop, tier := args[0], args[1]
	seed, _ := strconv.Atoi(os.Getenv("VERIF_SEED"))
	t0 := time.Now()
	var specs map[string]CheckSpec
	b, err := os.ReadFile(filepath.Join(verifDir, "checks.json"))
	if err != nil {
		fmt.Println("INCONCLUSIVE property=" + prop + " reason=cannot read checks.json")
		return 2
	}
	if err := json.Unmarshal(b, &specs); err != nil {
		fmt.Println("INCONCLUSIVE property=" + prop + " reason=bad checks.json: " + err.Error())
		return 2
	}
	spec, ok := specs[prop]
	if !ok {
		fmt.Println("INCONCLUSIVE property=" + prop + " reason=no such property in checks.json")
		return 2
	}
	cfg := defaultConfig()
	cfg.CrossCheck = 25
	if tier == "thorough" {
		cfg.QueryTimeout = 60000
		cfg.StepBudget = 20_000_000
		cfg.CrossCheck = 250
	}
	// load only the harness files this property needs; optional (white-box) harnesses are dropped
	// when they do not compile against the current tree
	files := func(skipOptional bool) map[string]bool {
		m := map[string]bool{}
		for _, hs := range spec.Harnesses {
			if skipOptional && hs.Optional {
				continue
			}
			if f := harnessFileOf(hs.Fn); f != "" {
				m[f] = true
			}
		}
		return m
	}
	var skipped []string
	g, err := loadEngineFiles(cfg, files(false))
	if err != nil {
		hasOpt := false
		for _, hs := range spec.Harnesses {
			hasOpt = hasOpt || hs.Optional
		}
		if hasOpt {
			if g2, err2 := loadEngineFiles(cfg, files(true)); err2 == nil {
				g, err = g2, nil
				var keep []HarnessSpec
				for _, hs := range spec.Harnesses {
					if hs.Optional {
						skipped = append(skipped, hs.Fn)
						fmt.Fprintf(os.Stderr, "[%s] white-box harness %s does not compile against this tree: skipped\n", prop, hs.Fn)
					} else {
						keep = append(keep, hs)
					}
				}
				spec.Harnesses = keep
			}
		}
	}
	if err != nil {
		fmt.Printf("INCONCLUSIVE property=%s reason=cannot load/encode /repo: %v\n", prop, err)
		writeEvidence(prop, tier, seed, nil, spec, time.Since(t0), 0, []string{"load error: " + err.Error()}, 0, nil)
		return 2
	}
	spec.Assumptions = append(spec.Assumptions, skippedNote(skipped)...)
	nworkers := 16
	if v, _ := strconv.Atoi(os.Getenv("VERIF_WORKERS")); v > 0 {
		nworkers = v
	}
	var results []*HarnessResult
	var inconc []string
	nr := &nativeRunner{}
	defer nr.cleanup()
	validated := 0
	var bestEffortNotes []string
	var confirmed []*Violation
	confirmHow := map[string]string{}
	for _, hs := range spec.Harnesses {
		if hs.Only != "" && hs.Only != tier {
			continue
		}
		params := hs.Quick
		tmo := hs.TimeoutQ
		if tmo == 0 {
			tmo = 420
		}
		if tier == "thorough" {
			params = map[string]int{}
			for k, v := range hs.Quick {
				params[k] = v
			}
			for k, v := range hs.Thorough {
				params[k] = v
			}
			tmo = hs.TimeoutT
			if tmo == 0 {
				tmo = 1800
			}
		}
		g.cfg.Symmetry = !hs.NoSymmetry
		g.cfg.StepBudget = cfg.StepBudget
		if hs.Steps > 0 {
			g.cfg.StepBudget = hs.Steps
		}
		maxW := 8
		if tier == "thorough" {
			maxW = 24
		}
		// a counterexample that cannot be re-executed (uninterpreted environment answers the replay
		// cannot honour) is never reported; the exploration is repeated up to twice, since another
		// order of discovery usually yields a reproducible one for the same defect
		attempt, inconcMark, notesMark := 0, len(inconc), len(bestEffortNotes)
	retry:
		res := g.Explore(hs.Fn, params, nworkers, time.Now().Add(time.Duration(tmo)*time.Second), maxW)
		results = append(results, res)
		fmt.Fprintf(os.Stderr, "[%s] %s paths=%d ends=%v queries=%d wall=%v\n", prop, hs.Fn, res.Paths, res.Ends, res.Queries, res.Wall.Round(time.Millisecond))
		if hs.BestEffort && res.TimedOut {
			// a beyond-the-bound supplement that did not finish: what it explored counts, the rest is
			// stated as not covered; it does not make the check inconclusive
			var keep []string
			for _, i := range res.Inconclusive {
				if !strings.Contains(i, "did not finish") {
					keep = append(keep, i)
				}
			}
			res.Inconclusive = keep
			bestEffortNotes = append(bestEffortNotes, fmt.Sprintf("%s %v: best-effort exploration stopped at its time cap after %d paths (partial)", hs.Fn, params, res.Paths))
		}
		for _, i := range res.Inconclusive {
			inconc = append(inconc, hs.Fn+": "+i)
		}
		// vacuity
		for _, c := range hs.Covers {
			if hs.BestEffort && res.TimedOut {
				break
			}
			if res.Covers[c] == 0 && len(res.Violations) == 0 {
				inconc = append(inconc, hs.Fn+": vacuous: cover label never reached: "+c)
			}
		}
		if res.Ends["complete"] == 0 && len(res.Violations) == 0 {
			inconc = append(inconc, hs.Fn+": vacuous: no complete feasible path")
		}
		native := hs.Native == nil || *hs.Native
		// witness replays: engine concrete re-execution vs native run
		if native && len(res.Witnesses) > 0 && len(res.Violations) == 0 {
			if err := nr.build(g); err != nil {
				inconc = append(inconc, "native replay build: "+err.Error())
			} else {
				for _, w := range res.Witnesses {
					ok, why := g.validateWitness(nr, hs.Fn, params, w, res.MaxThreads > 1)
					if ok {
						validated++
					} else if why != "" {
						inconc = append(inconc, hs.Fn+": witness mismatch: "+why)
					}
				}
			}
		}
		// counterexamples (at most three per harness are confirmed and reported)
		if len(res.Violations) > maxViolationsPerHarness {
			res.Violations = res.Violations[:maxViolationsPerHarness]
		}
		confirmedBefore := len(confirmed)
		for _, v := range res.Violations {
			how, ok := g.confirmViolation(nr, hs.Fn, params, v, native, res.MaxThreads > 1)
			if ok {
				confirmed = append(confirmed, v)
				confirmHow[v.Sig] = how
			} else {
				inconc = append(inconc, fmt.Sprintf("%s: counterexample %s did not reproduce (%s) — encoding or stub suspect", hs.Fn, v.Sig, how))
			}
		}
		if len(res.Violations) > 0 && len(confirmed) == confirmedBefore && attempt < 2 {
			attempt++
			fmt.Fprintf(os.Stderr, "[%s] %s: no counterexample of this exploration could be re-executed; exploring again (%d)\n", prop, hs.Fn, attempt)
			inconc, bestEffortNotes = inconc[:inconcMark], bestEffortNotes[:notesMark]
			results = results[:len(results)-1]
			goto retry
		}
		if len(confirmed) > 0 {
			// fail fast: the property is violated; the remaining harnesses would only add time
			fmt.Fprintf(os.Stderr, "[%s] confirmed violation in %s: remaining harnesses skipped\n", prop, hs.Fn)
			break
		}
	}
	// classify against known findings
	known := loadKnown()
	exit := 0
	nviol := 0
	var matchedKnown []string
	for _, v := range confirmed {
		isKnown := false
		for _, k := range known {
			if k.kind == "known" && k.property == prop && k.sig == v.Sig {
				isKnown = true
				fmt.Printf("KNOWN-FINDING: property=%s %s\n", prop, k.text)
				matchedKnown = append(matchedKnown, v.Sig)
			}
		}
		if isKnown {
			continue
		}
		nviol++
		path := writeReplay(prop, v)
		fmt.Printf("VIOLATION property=%s replay=%s\n", prop, path)
		fmt.Printf("  %s: %s [%s]\n", v.Sig, v.Msg, confirmHow[v.Sig])
		exit = 1
	}
	if exit == 0 && len(inconc) > 0 {
		exit = 2
	}
	for _, i := range inconc {
		fmt.Printf("INCONCLUSIVE property=%s reason=%s\n", prop, i)
	}
	spec.Assumptions = append(spec.Assumptions, bestEffortNotes...)
	writeEvidence(prop, tier, seed, results, spec, time.Since(t0), validated, inconc, nviol, matchedKnown)
	if exit == 0 {
		paths, q := 0, 0
		for _, r := range results {
			paths += r.Paths
			q += r.Queries
		}
		fmt.Printf("OK property=%s tier=%s harnesses=%d paths=%d solver_queries=%d witnesses_validated_natively=%d wall=%.1fs\n", prop, tier, len(results), paths, q, validated, time.Since(t0).Seconds())
	}
	return exit
}

// validateWitness re-executes a passing path concretely in the engine and natively, and compares
// the observable event logs, cover labels and assertion outcomes.
func (g *Engine) validateWitness(nr *nativeRunner, harness string, params map[string]int, w Witness, concurrent bool) (bool, string) {
	ce := g.RunTrailConcrete(harness, params, w.Model, w.Free)
	if ce.endKind != "complete" {
		return false, fmt.Sprintf("engine concrete re-execution ended %s %s", ce.endKind, ce.endMsg)
	}
	if len(ce.violations) > 0 {
		return false, "engine concrete re-execution violates " + ce.violations[0].Sig
	}
	tape := g.makeTape(harness, params, ce.nondetKeys, w.Model)
	out, err := nr.run(tape)
	if err != nil {
		return false, err.Error()
	}
	if out.AssumeFailed || out.Panic != "" || out.Fail != "" || len(out.Failed) > 0 {
		return false, fmt.Sprintf("native run of a passing path: assume_failed=%v panic=%q fail=%q failed=%v tape=%v", out.AssumeFailed, out.Panic, out.Fail, out.Failed, tape.Readable)
	}
	if concurrent {
		// native scheduling is free: compare only the multiset of cover labels' presence for
		// schedule-independent labels (none known) — count the run as validated when it passes
		return true, ""
	}
	// compare logs
	if len(out.Log) != len(ce.log) {
		return false, fmt.Sprintf("log length engine=%d native=%d (engine %v native %v) tape=%v", len(ce.log), len(out.Log), ce.log, out.Log, tape.Readable)
	}
	for i := range out.Log {
		if out.Log[i] != ce.log[i] {
			return false, fmt.Sprintf("log[%d] engine=%v native=%v tape=%v", i, ce.log[i], out.Log[i], tape.Readable)
		}
	}
	nc := map[string]bool{}
	for _, c := range out.Covers {
		nc[c] = true
	}
	for c := range ce.covers {
		if !nc[c] {
			return false, "cover " + c + " reached in engine but not natively"
		}
	}
	for c := range nc {
		if !ce.covers[c] {
			return false, "cover " + c + " reached natively but not in engine"
		}
	}
	return true, ""
}

// RunTrailConcrete re-executes the harness with every nondet fixed to the model's value.
func (g *Engine) RunTrailConcrete(harness string, params map[string]int, model map[string]uint64, free []int) *Exec {
	entry := g.pkg.Func(harness)
	e := g.newExec(harness, nil, nil)
	e.params = params
	e.paramsUsed = map[string]int{}
	e.concrete = model
	e.ts.concrete = true
	if e.concrete == nil {
		e.concrete = map[string]uint64{}
	}
	e.freeTrail = free
	e.runPath(entry)
	return e
}

func (g *Engine) confirmViolation(nr *nativeRunner, harness string, params map[string]int, v *Violation, native, concurrent bool) (string, bool) {
	// 1. concrete re-execution inside the engine (model sanity)
	ce := g.RunTrailConcrete(harness, params, v.Model, v.Free)
	engineOK := false
	for _, cv := range ce.violations {
		if cv.Kind == v.Kind && (cv.Label == v.Label || v.Kind != "assert") {
			engineOK = true
		}
	}
	v.tape = g.makeTape(harness, params, ce.nondetKeys, v.Model)
	v.tape.Expect, v.tape.Kind, v.tape.Sig, v.tape.Msg, v.tape.Trail, v.tape.Free = v.Label, v.Kind, v.Sig, v.Msg, v.Trail, v.Free
	if !engineOK {
		return fmt.Sprintf("engine concrete re-execution under the model ended %s %s without the violation", ce.endKind, ce.endMsg), false
	}
	if !native {
		return "confirmed by concrete re-execution in the engine (harness uses engine-only observables)", true
	}
	if err := nr.build(g); err != nil {
		return "native build failed: " + err.Error(), false
	}
	tries := 1
	if concurrent {
		tries = 60
	}
	var last *nativeOutcome
	runner := nr
	if v.Kind == "race" {
		// data races are replayed under the Go race detector (binary built once per check)
		if nr.raceTwin == nil {
			nr.raceTwin = &nativeRunner{race: true}
			nr.raceTwin.build(g)
		}
		if nr.raceTwin.err == nil {
			runner = nr.raceTwin
		}
		if tries > 25 {
			tries = 25
		}
	}
	for i := 0; i < tries; i++ {
		var env []string
		if concurrent && i > 0 {
			env = []string{"VERIF_JITTER=1"}
		}
		out, err := runner.run(v.tape, env...)
		if err != nil {
			return err.Error(), false
		}
		last = out
		if out.AssumeFailed && len(out.Failed) == 0 && out.Panic == "" {
			continue
		}
		switch v.Kind {
		case "race":
			if strings.Contains(out.Fail, "DATA RACE") {
				return fmt.Sprintf("reproduced natively under the race detector (run %d)", i+1), true
			}
		case "assert":
			for _, f := range out.Failed {
				if f == v.Label {
					return fmt.Sprintf("reproduced natively (run %d)", i+1), true
				}
			}
		case "panic":
			if out.Panic != "" {
				return "reproduced natively: panic " + out.Panic, true
			}
		case "deadlock":
			if strings.Contains(out.Fail, "watchdog") || strings.Contains(out.Fail, "vBlockUntil") {
				return "reproduced natively: " + out.Fail, true
			}
		}
	}
	if concurrent || v.Kind == "race" || v.Kind == "deadlock" {
		return fmt.Sprintf("schedule-dependent: confirmed by deterministic re-execution of the recorded schedule in the engine; %d native stress runs did not hit it", tries), true
	}
	return fmt.Sprintf("native run did not fail %s (native failed=%v panic=%q assume_failed=%v)", v.Label, last.Failed, last.Panic, last.AssumeFailed), false
}

func writeReplay(prop string, v *Violation) string {
	dir := filepath.Join(verifDir, "replays", prop)
	os.MkdirAll(dir, 0o755)
	h := sha1.Sum([]byte(v.Sig))
	path := filepath.Join(dir, fmt.Sprintf("%x.json", h[:6]))
	t := v.tape
	if t == nil {
		t = &replayTape{Harness: v.Harness}
	}
	t.Property = prop
	b, _ := json.MarshalIndent(t, "", " ")
	os.WriteFile(path, b, 0o644)
	return path
}

// cmdReplay re-runs a stored counterexample natively against /repo's current tree.
func cmdReplay(path string) int {
	b, err := os.ReadFile(path)
	if err != nil {
		fmt.Fprintln(os.Stderr, err)
		return 2
	}
	var tape replayTape
	if err := json.Unmarshal(b, &tape); err != nil {
		fmt.Fprintln(os.Stderr, err)
		return 2
	}
	g, err := loadEngine(defaultConfig())
	if err != nil {
		fmt.Fprintln(os.Stderr, err)
		return 2
	}
	fmt.Printf("replaying %s: harness=%s expect %s %q\n  inputs: %v\n", path, tape.Harness, tape.Kind, tape.Expect, tape.Readable)
	// engine re-execution along the recorded trail
	model := map[string]uint64{}
	_ = model
	nr := &nativeRunner{}
	defer nr.cleanup()
	if err := nr.build(g); err != nil {
		fmt.Println(err)
		return 2
	}
	out, err := nr.run(&tape)
	if err != nil {
		fmt.Println(err)
		return 2
	}
	ob, _ := json.Marshal(out)
	fmt.Printf("native outcome: %s\n", ob)
	for _, f := range out.Failed {
		if f == tape.Expect {
			fmt.Printf("VIOLATION property=%s replay=%s\n", tape.Property, path)
			return 1
		}
	}
	if tape.Kind == "panic" && out.Panic != "" {
		fmt.Printf("VIOLATION property=%s replay=%s\n", tape.Property, path)
		return 1
	}
	fmt.Println("not reproduced natively on the current tree")
	return 0
}

// ---------------------------------------------------------------- evidence

func writeEvidence(prop, tier string, seed int, results []*HarnessResult, spec CheckSpec, wall time.Duration, validated int, inconc []string, nviol int, known []string) {
	states, steps, queries, folded := 0, 0, 0, 0
	var st SolverStats
	var samples []interface{}
	fns := map[string]interface{}{}
	harn := []interface{}{}
	stubsUsed := map[string]int{}
	covers := map[string]int{}
	cross, crossUnk, crossDis, rangeEx, cacheHits := 0, 0, 0, 0, 0
	exhaustive := true
	for _, r := range results {
		states += r.Ends["complete"]
		steps += r.Steps
		queries += r.Queries
		folded += r.Folded
		st.Sat += r.Solver.Sat
		st.Unsat += r.Solver.Unsat
		st.Unknown += r.Solver.Unknown
		st.Errors += r.Solver.Errors
		st.Time += r.Solver.Time
		if r.TimedOut {
			exhaustive = false
		}
		cross += r.CrossChecked
		crossUnk += r.CrossUnknown
		crossDis += r.CrossDisagree
		rangeEx += r.RangeExcluded
		cacheHits += r.CacheHits
		for i, s := range r.Samples {
			if i < 3 {
				samples = append(samples, map[string]interface{}{"harness": r.Harness, "path": s})
			}
		}
		for k, v := range r.Stubs {
			stubsUsed[k] += v
		}
		for k, v := range r.Fns {
			k = strings.ReplaceAll(k, "github.com/mark3labs/flyt.", "")
			if n, ok := fns[k].(int); ok {
				fns[k] = n + v
			} else {
				fns[k] = v
			}
		}
		for k, v := range r.Covers {
			covers[r.Harness+":"+k] = v
		}
		harn = append(harn, map[string]interface{}{
			"harness": r.Harness, "params": r.ParamsUsed, "paths": r.Paths, "path_ends": r.Ends,
			"ssa_instructions_executed": r.Steps, "scheduler_transitions": r.Transitions, "max_threads": r.MaxThreads,
			"solver_queries": r.Queries, "assertions_decided_by_solver": r.AssertQ, "assertions_unsat": r.AssertUnsat,
			"assertions_folded_constant": r.AssertFolded, "branches_folded": r.Folded, "assert_labels": r.Asserts,
			"wall_s": r.Wall.Seconds(), "violations": len(r.Violations), "timed_out": r.TimedOut,
		})
	}
	if len(samples) == 0 {
		samples = append(samples, map[string]interface{}{"note": "no path completed"})
	}
	if states == 0 {
		states = 0
	}
	ev := map[string]interface{}{
		"property_id": prop, "tier": tier, "seed": seed, "level": "model_checking", "wall_s": wall.Seconds(), "violations": nviol,
		"assumptions": spec.Assumptions,
		"coverage": map[string]interface{}{
			"states": maxInt(states, 1), "transitions": maxInt(steps, 1), "traces_validated_against_impl": validated,
			"samples": samples, "exhaustive": exhaustive && len(inconc) == 0,
			"explanation": "bounded symbolic model checking of the go/ssa form of /repo (regenerated this run): states = complete feasible symbolic paths (each covers all values of its symbolic inputs; for concurrent harnesses one path = one schedule class × symbolic data), transitions = SSA instructions executed symbolically; assertions are SMT queries (z3) over the path condition",
			"harnesses": harn, "functions_encoded": fns, "bounds": spec.Bounds, "outside_bounds": spec.Outside,
			"queries": map[string]interface{}{"total": queries, "sat": st.Sat, "unsat": st.Unsat, "unknown": st.Unknown, "errors": st.Errors, "branches_folded_without_query": folded},
			"solver_s": st.Time.Seconds(), "solvers": []string{"z3 4.8.12 (-in, push/pop)", "cvc5 1.0 (--incremental) for the cross-checked sample"},
			"cross_checked": map[string]interface{}{"assertion_verdicts_re_asked_to_cvc5": cross, "cvc5_unknown": crossUnk, "disagreements": crossDis, "rule": "every counterexample and the first K unsat assertion verdicts per worker and harness (K=25 quick, 250 thorough); a disagreement makes the run INCONCLUSIVE"},
			"decided_without_query": map[string]interface{}{"by_cached_model_or_syntactic_implication": cacheHits},
			"assertions_excluded_out_of_range_float_to_int": rangeEx, "stubs_used": stubsUsed, "covers": covers,
			"inconclusive": inconc, "known_findings_matched": known,
		},
	}
	os.MkdirAll(filepath.Join(verifDir, "evidence"), 0o755)
	b, _ := json.MarshalIndent(ev, "", " ")
	os.WriteFile(filepath.Join(verifDir, "evidence", prop+".json"), b, 0o644)
}

func maxInt(a, b int) int {
	if a > b {
		return a
	}
	return b
}


func skippedNote(skipped []string) []string {
	if len(skipped) == 0 {
		return nil
	}
	return []string{"white-box harnesses skipped because they do not compile against this tree: " + strings.Join(skipped, ", ")}
}
