package main

// sync.Cond and the strings package.

import (
	"fmt"
	"go/token"
	"go/types"
	"math"
	"strings"

	"golang.org/x/tools/go/ssa"
)

// ---------------------------------------------------------------- sync.Cond
//
// A Cond is its real struct (the L field is read by user code); the wait queue lives in the engine.
// Wait = L.Unlock; park until signalled (FIFO, as the runtime's notify list); L.Lock.

type condState struct {
	waiting []*condTicket
	hb      hbClock
}

type condTicket struct {
	tid      int
	signaled bool
}

func (e *Exec) condOf(c *Cell) *condState {
	if e.condObjs == nil {
		e.condObjs = map[*Cell]*condState{}
	}
	st := e.condObjs[c]
	if st == nil {
		st = &condState{}
		e.condObjs[c] = st
	}
	return st
}

func condLField(tt types.Type) int {
	st := tt.Underlying().(*types.Struct)
	for i := 0; i < st.NumFields(); i++ {
		if st.Field(i).Name() == "L" {
			return i
		}
	}
	return 1
}

func (t *Thread) condLocker(c *Cell, pos token.Pos) Iface {
	s := c.v.(*Struct)
	for i, f := range s.f {
		if l, ok := f.v.(Iface); ok && i <= 2 {
			return l
		}
	}
	t.e.unsupported("sync.Cond without a Locker")
	return Iface{}
}

func (t *Thread) callLocker(l Iface, name string, pos token.Pos) {
	if l.t == nil {
		t.goPanicf(pos, "nil pointer dereference", nil)
	}
	m := t.hasMethod(l, name)
	if m == nil {
		t.e.unsupported("Locker without " + name)
	}
	t.callFn(m, []Value{l.v}, nil, pos)
}

func init() {
	stubs["sync.NewCond"] = func(t *Thread, fn *ssa.Function, args []Value, pos token.Pos) Value {
		e := t.e
		tt := fn.Signature.Results().At(0).Type().(*types.Pointer).Elem()
		cell := e.newCell(e.zero(tt))
		cell.v.(*Struct).f[condLField(tt)].v = args[0]
		return cell
	}
	stubs["(*sync.Cond).Wait"] = func(t *Thread, fn *ssa.Function, args []Value, pos token.Pos) Value {
		c := t.derefPtr(args[0], pos)
		st := t.e.condOf(c)
		l := t.condLocker(c, pos)
		tk := &condTicket{tid: t.id}
		// the runtime registers the waiter BEFORE unlocking (no lost wake-up)
		st.waiting = append(st.waiting, tk)
		t.callLocker(l, "Unlock", pos)
		if !tk.signaled {
			t.e.multi = true
		}
		t.visible(&SyncOp{kind: "cond.wait", obj: c, tpos: pos, enabled: func() bool { return tk.signaled }})
		t.acquire(&st.hb)
		t.callLocker(l, "Lock", pos)
		return nil
	}
	wake := func(all bool) stubFn {
		return func(t *Thread, fn *ssa.Function, args []Value, pos token.Pos) Value {
			c := t.derefPtr(args[0], pos)
			st := t.e.condOf(c)
			t.visible(&SyncOp{kind: "cond.signal", obj: c, tpos: pos, enabled: func() bool { return true }})
			t.release(&st.hb)
			for len(st.waiting) > 0 {
				st.waiting[0].signaled = true
				st.waiting = st.waiting[1:]
				if !all {
					break
				}
			}
			return nil
		}
	}
	stubs["(*sync.Cond).Signal"] = wake(false)
	stubs["(*sync.Cond).Broadcast"] = wake(true)
}

// ---------------------------------------------------------------- package strings
//
// Strings are interned ids with equality only. A strings function is computed when its arguments are
// constants. With a symbolic first argument s (the other arguments constant) the call forks: one
// branch per *special* string — every interned string, plus a small built-in pool per function, on
// which the real function differs from its behaviour on a generic identifier — with s equal to it and
// the real result; and one branch "s is none of those" with the generic result (s is then a string
// like "sym4711": letters and digits only, no blanks, no separators). Every branch therefore
// corresponds to real strings and replays natively; what is not covered are special strings outside
// the pool (stated in DESIGN.md).

type strFn struct {
	nconst  int                                             // number of constant string arguments after s
	real    func(s string, c []string) []any                // results on concrete strings (string, bool, int or []string)
	pool    func(c []string) []string                       // built-in special candidates
}

func genericName(s string) bool {
	for _, r := range s {
		if !(r >= 'a' && r <= 'z' || r >= '0' && r <= '9') {
			return false
		}
	}
	return s != ""
}

var strPoolTrim = func(c []string) []string { return []string{"", " ", "\n", "\t ", " x", "x ", " x y "} }

func sepPool(c []string) []string {
	sep := c[0]
	return []string{"", sep, "a" + sep + "b", "a" + sep, sep + "b", "a" + sep + "b" + sep + "c", sep + sep}
}

var strFns = map[string]strFn{
	"strings.TrimSpace": {0, func(s string, c []string) []any { return []any{strings.TrimSpace(s)} }, strPoolTrim},
	"strings.ToLower":   {0, func(s string, c []string) []any { return []any{strings.ToLower(s)} }, func([]string) []string { return []string{"", "A", "Ab", "aB"} }},
	"strings.Fields":    {0, func(s string, c []string) []any { return []any{strings.Fields(s)} }, strPoolTrim},
	"strings.Cut": {1, func(s string, c []string) []any {
		a, b, ok := strings.Cut(s, c[0])
		return []any{a, b, ok}
	}, sepPool},
	"strings.Contains":   {1, func(s string, c []string) []any { return []any{strings.Contains(s, c[0])} }, sepPool},
	"strings.HasPrefix":  {1, func(s string, c []string) []any { return []any{strings.HasPrefix(s, c[0])} }, sepPool},
	"strings.HasSuffix":  {1, func(s string, c []string) []any { return []any{strings.HasSuffix(s, c[0])} }, sepPool},
	"strings.Index":      {1, func(s string, c []string) []any { return []any{strings.Index(s, c[0])} }, sepPool},
	"strings.LastIndex":  {1, func(s string, c []string) []any { return []any{strings.LastIndex(s, c[0])} }, sepPool},
	"strings.Split":      {1, func(s string, c []string) []any { return []any{strings.Split(s, c[0])} }, sepPool},
	"strings.TrimPrefix": {1, func(s string, c []string) []any { return []any{strings.TrimPrefix(s, c[0])} }, sepPool},
	"strings.TrimSuffix": {1, func(s string, c []string) []any { return []any{strings.TrimSuffix(s, c[0])} }, sepPool},
	"strings.Trim":       {1, func(s string, c []string) []any { return []any{strings.Trim(s, c[0])} }, sepPool},
	"strings.TrimLeft":   {1, func(s string, c []string) []any { return []any{strings.TrimLeft(s, c[0])} }, sepPool},
	"strings.TrimRight":  {1, func(s string, c []string) []any { return []any{strings.TrimRight(s, c[0])} }, sepPool},
	"strings.EqualFold":  {1, func(s string, c []string) []any { return []any{strings.EqualFold(s, c[0])} }, func(c []string) []string { return []string{c[0], strings.ToUpper(c[0]), strings.ToLower(c[0])} }},
	"strings.ReplaceAll": {2, func(s string, c []string) []any { return []any{strings.ReplaceAll(s, c[0], c[1])} }, sepPool},
	"strings.CutSuffix": {1, func(s string, c []string) []any {
		a, ok := strings.CutSuffix(s, c[0])
		return []any{a, ok}
	}, sepPool},
	"strings.CutPrefix": {1, func(s string, c []string) []any {
		a, ok := strings.CutPrefix(s, c[0])
		return []any{a, ok}
	}, sepPool},
	"strings.SplitN": {1, nil, nil}, // placeholder: handled as unsupported below
}

func (t *Thread) strResult(vals []any) Value {
	e := t.e
	conv := func(v any) Value {
		switch x := v.(type) {
		case string:
			return e.ts.BV(32, uint64(e.eng.intern(x)))
		case bool:
			return e.ts.Bool(x)
		case int:
			return e.ts.BV(64, uint64(int64(x)))
		case []string:
			cells := make([]*Cell, len(x))
			for i, s := range x {
				cells[i] = e.newCell(e.ts.BV(32, uint64(e.eng.intern(s))))
			}
			if x == nil {
				return Slice{isNil: true}
			}
			return Slice{cells: cells, n: len(cells)}
		}
		panic("strResult")
	}
	if len(vals) == 1 {
		return conv(vals[0])
	}
	tu := make(Tuple, len(vals))
	for i, v := range vals {
		tu[i] = conv(v)
	}
	return tu
}

func eqResults(a, b []any) bool {
	if len(a) != len(b) {
		return false
	}
	for i := range a {
		switch x := a[i].(type) {
		case []string:
			y, ok := b[i].([]string)
			if !ok || len(x) != len(y) {
				return false
			}
			for j := range x {
				if x[j] != y[j] {
					return false
				}
			}
		default:
			if a[i] != b[i] {
				return false
			}
		}
	}
	return true
}

func stubStringsFn(name string, sf strFn) stubFn {
	return func(t *Thread, fn *ssa.Function, args []Value, pos token.Pos) Value {
		e := t.e
		if sf.real == nil || len(args) != 1+sf.nconst {
			e.unsupported("external callee " + name + " at " + t.posOf(pos))
		}
		cs := make([]string, sf.nconst)
		for i := 0; i < sf.nconst; i++ {
			c, ok := args[1+i].(*Term)
			if !ok || !c.IsConst {
				e.unsupported(name + " with a symbolic non-first argument at " + t.posOf(pos))
			}
			cs[i] = e.eng.strOf(uint32(c.C))
			if cs[i] != "" && strings.Trim(cs[i], "sym0123456789") == "" && name != "strings.EqualFold" {
				// a separator made of the very characters generic identifiers consist of: not modelled
				e.unsupported(name + " with an alphanumeric pattern " + cs[i])
			}
		}
		s := args[0].(*Term)
		if s.IsConst {
			return t.strResult(sf.real(e.eng.strOf(uint32(s.C)), cs))
		}
		// the generic behaviour, probed on a generic identifier
		probe := "sym999999"
		gen := sf.real(probe, cs)
		special := func(c string) bool {
			r := sf.real(c, cs)
			g := make([]any, len(gen))
			for i, v := range gen {
				switch x := v.(type) {
				case string:
					g[i] = strings.ReplaceAll(x, probe, c)
				case []string:
					y := make([]string, len(x))
					for j := range x {
						y[j] = strings.ReplaceAll(x[j], probe, c)
					}
					g[i] = y
				default:
					g[i] = v
				}
			}
			return !eqResults(r, g)
		}
		seen := map[string]bool{}
		var cands []string
		for _, c := range sf.pool(cs) {
			if !seen[c] && special(c) {
				seen[c] = true
				cands = append(cands, c)
			}
		}
		e.eng.mu.Lock()
		known := append([]string(nil), e.eng.strs...)
		e.eng.mu.Unlock()
		for _, c := range known {
			if !seen[c] && special(c) {
				seen[c] = true
				cands = append(cands, c)
			}
		}
		if len(cands) > 24 {
			cands = cands[:24]
		}
		ts := e.ts
		gs := make([]*Term, 0, len(cands)+1)
		other := ts.Bool(true)
		for _, c := range cands {
			g := ts.Eq(s, ts.BV(32, uint64(e.eng.intern(c))))
			gs = append(gs, g)
			other = ts.And(other, ts.Not(g))
		}
		// "none of the special strings": a generic identifier (ids from 2^24 up are never interned)
		other = ts.And(other, ts.Not(ts.BVCmp("bvult", s, ts.BV(32, 1<<24))))
		gs = append(gs, other)
		i := e.choose("strings@"+t.posOf(pos), gs)
		if i < len(cands) {
			return t.strResult(sf.real(cands[i], cs))
		}
		// generic result with s itself in place of the probe
		out := make([]Value, len(gen))
		for k, v := range gen {
			switch x := v.(type) {
			case string:
				switch x {
				case probe:
					out[k] = s
				default:
					if strings.Contains(x, probe) {
						e.unsupported(name + ": generic result is not s itself")
					}
					out[k] = ts.BV(32, uint64(e.eng.intern(x)))
				}
			case []string:
				cells := make([]*Cell, len(x))
				for j, y := range x {
					if y == probe {
						cells[j] = e.newCell(s)
					} else if strings.Contains(y, probe) {
						e.unsupported(name + ": generic result is not s itself")
					} else {
						cells[j] = e.newCell(ts.BV(32, uint64(e.eng.intern(y))))
					}
				}
				out[k] = Slice{cells: cells, n: len(cells)}
			case bool:
				out[k] = ts.Bool(x)
			case int:
				out[k] = ts.BV(64, uint64(int64(x)))
			}
		}
		if len(out) == 1 {
			return out[0]
		}
		return Tuple(out)
	}
}

func init() {
	for name, sf := range strFns {
		stubs[name] = stubStringsFn(name, sf)
	}
	stubs["strings.Join"] = func(t *Thread, fn *ssa.Function, args []Value, pos token.Pos) Value {
		e := t.e
		sl, ok := t.conc(args[0]).(Slice)
		sep, ok2 := args[1].(*Term)
		if !ok || !ok2 {
			e.unsupported("strings.Join")
		}
		var acc *Term = e.ts.BV(32, uint64(e.eng.intern("")))
		for i := 0; i < sl.n; i++ {
			parts := []*Term{sl.cells[i].v.(*Term)}
			if i > 0 {
				parts = []*Term{sep, parts[0]}
			}
			for _, p := range parts {
				if acc.IsConst && p.IsConst {
					acc = e.ts.BV(32, uint64(e.eng.intern(e.eng.strOf(uint32(acc.C))+e.eng.strOf(uint32(p.C)))))
				} else {
					acc = e.ts.UF("str_concat", StrSort, acc, p)
				}
			}
		}
		return acc
	}
}

// ---------------------------------------------------------------- math (IEEE operations z3 knows)

func init() {
	un := func(op string) stubFn {
		return func(t *Thread, fn *ssa.Function, args []Value, pos token.Pos) Value {
			return t.e.ts.FPUn(op, args[0].(*Term))
		}
	}
	stubs["math.Abs"] = un("fp.abs")
	stubs["math.Round"] = un("fp.rti.RNA")
	stubs["math.Floor"] = un("fp.rti.RTN")
	stubs["math.Ceil"] = un("fp.rti.RTP")
	stubs["math.Trunc"] = un("fp.rti.RTZ")
	stubs["math.RoundToEven"] = un("fp.rti.RNE")
	stubs["math.IsNaN"] = func(t *Thread, fn *ssa.Function, args []Value, pos token.Pos) Value {
		return t.e.ts.FPIsNaN(args[0].(*Term))
	}
	stubs["math.IsInf"] = func(t *Thread, fn *ssa.Function, args []Value, pos token.Pos) Value {
		ts := t.e.ts
		f := args[0].(*Term)
		sign := t.concInt(args[1].(*Term), "math.IsInf.sign", pos)
		pinf := ts.FPCmp("fp.eq", f, ts.FPConst(f.S.W, math.Inf(1)))
		ninf := ts.FPCmp("fp.eq", f, ts.FPConst(f.S.W, math.Inf(-1)))
		switch {
		case sign > 0:
			return pinf
		case sign < 0:
			return ninf
		}
		return ts.Or(pinf, ninf)
	}
	stubs["math.Inf"] = func(t *Thread, fn *ssa.Function, args []Value, pos token.Pos) Value {
		sign := t.concInt(args[0].(*Term), "math.Inf.sign", pos)
		if sign >= 0 {
			return t.e.ts.FPConst(64, math.Inf(1))
		}
		return t.e.ts.FPConst(64, math.Inf(-1))
	}
	stubs["math.NaN"] = func(t *Thread, fn *ssa.Function, args []Value, pos token.Pos) Value {
		return t.e.ts.FPConst(64, math.NaN())
	}
}

// ---------------------------------------------------------------- reflect.DeepEqual, Value.Pointer

// deepEqual follows reflect.DeepEqual: identical pointers/maps are equal, otherwise pointees / contents
// are compared; a nil and an empty slice (map) differ; floats by ==; funcs only when both nil.
func (t *Thread) deepEqual(a, b Value, depth int) *Term {
	e := t.e
	ts := e.ts
	if depth > 16 {
		e.unsupported("reflect.DeepEqual too deep (cyclic?)")
	}
	a, b = t.conc(a), t.conc(b)
	switch x := a.(type) {
	case nil:
		return ts.Bool(isNilValue(b))
	case *Term:
		y, ok := b.(*Term)
		if !ok || y.S != x.S {
			return ts.Bool(false)
		}
		if x.S.K == SFP {
			return ts.FPCmp("fp.eq", x, y)
		}
		return ts.Eq(x, y)
	case Iface:
		y, ok := b.(Iface)
		if !ok {
			return ts.Bool(false)
		}
		if x.t == nil || y.t == nil {
			return ts.Bool(x.t == nil && y.t == nil)
		}
		if !types.Identical(x.t, y.t) {
			return ts.Bool(false)
		}
		return t.deepEqual(x.v, y.v, depth+1)
	case *Cell:
		y, ok := b.(*Cell)
		if !ok {
			return ts.Bool(false)
		}
		if x == nil || y == nil {
			return ts.Bool(x == nil && y == nil)
		}
		if x == y {
			return ts.Bool(true)
		}
		return t.deepEqual(x.v, y.v, depth+1)
	case *MapObj:
		y, ok := b.(*MapObj)
		if !ok {
			return ts.Bool(false)
		}
		if x == nil || y == nil {
			return ts.Bool(x == nil && y == nil)
		}
		if x == y {
			return ts.Bool(true)
		}
		if len(x.ents) != len(y.ents) {
			return ts.Bool(false)
		}
		r := ts.Bool(true)
		for _, ex := range x.ents {
			hit := ts.Bool(false)
			for _, ey := range y.ents {
				hit = ts.Or(hit, ts.And(t.deepEqual(ex.k, ey.k, depth+1), t.deepEqual(ex.c.v, ey.c.v, depth+1)))
			}
			r = ts.And(r, hit)
		}
		return r
	case Slice:
		y, ok := b.(Slice)
		if !ok {
			return ts.Bool(false)
		}
		if x.isNil != y.isNil || x.n != y.n {
			return ts.Bool(false)
		}
		r := ts.Bool(true)
		for i := 0; i < x.n; i++ {
			r = ts.And(r, t.deepEqual(x.cells[i].v, y.cells[i].v, depth+1))
		}
		return r
	case *Struct:
		y, ok := b.(*Struct)
		if !ok || len(x.f) != len(y.f) {
			return ts.Bool(false)
		}
		r := ts.Bool(true)
		for i := range x.f {
			r = ts.And(r, t.deepEqual(x.f[i].v, y.f[i].v, depth+1))
		}
		return r
	case *Array:
		y, ok := b.(*Array)
		if !ok || len(x.e) != len(y.e) {
			return ts.Bool(false)
		}
		r := ts.Bool(true)
		for i := range x.e {
			r = ts.And(r, t.deepEqual(x.e[i].v, y.e[i].v, depth+1))
		}
		return r
	case *Closure:
		y, ok := b.(*Closure)
		return ts.Bool(ok && x == nil && y == nil)
	case *ChanObj:
		y, ok := b.(*ChanObj)
		return ts.Bool(ok && x == y)
	case *ErrObj:
		y, ok := b.(*ErrObj)
		return ts.Bool(ok && x == y)
	}
	e.unsupported(fmt.Sprintf("reflect.DeepEqual on %T", a))
	return nil
}

// addrOf gives heap objects a stable fake address (what reflect.Value.Pointer reports)
func (e *Exec) addrOf(obj any) uint64 {
	if e.addrs == nil {
		e.addrs = map[any]uint64{}
	}
	if a, ok := e.addrs[obj]; ok {
		return a
	}
	a := uint64(0xc000100000) + uint64(len(e.addrs))*0x40
	e.addrs[obj] = a
	return a
}

func init() {
	stubs["reflect.DeepEqual"] = func(t *Thread, fn *ssa.Function, args []Value, pos token.Pos) Value {
		return t.deepEqual(args[0], args[1], 0)
	}
	ptr := func(t *Thread, fn *ssa.Function, args []Value, pos token.Pos) Value {
		e := t.e
		r := rv(args)
		if !r.valid {
			t.goPanicf(pos, "reflect: call of reflect.Value.Pointer on zero Value", nil)
		}
		switch x := t.conc(r.v).(type) {
		case *Cell:
			if x == nil {
				return e.ts.BV(64, 0)
			}
			if st, ok := x.v.(*Struct); ok && len(st.f) == 0 {
				// all zero-size allocations share one address (runtime.zerobase)
				return e.ts.BV(64, 0xc000000000)
			}
			return e.ts.BV(64, e.addrOf(x))
		case *MapObj:
			if x == nil {
				return e.ts.BV(64, 0)
			}
			return e.ts.BV(64, e.addrOf(x))
		case *ChanObj:
			if x == nil {
				return e.ts.BV(64, 0)
			}
			return e.ts.BV(64, e.addrOf(x))
		case *Closure:
			if x == nil {
				return e.ts.BV(64, 0)
			}
			return e.ts.BV(64, e.addrOf(x.fn))
		case Slice:
			if x.isNil {
				return e.ts.BV(64, 0)
			}
			if len(x.cells) == 0 {
				return e.ts.BV(64, 0xc000000000) // runtime.zerobase
			}
			return e.ts.BV(64, e.addrOf(x.cells[0]))
		}
		t.goPanicf(pos, "reflect: call of reflect.Value.Pointer on a non-pointer Value", nil)
		return nil
	}
	stubs["(reflect.Value).Pointer"] = ptr
	stubs["(reflect.Value).UnsafePointer"] = ptr

	// ---- time.Ticker: a periodic timer on the virtual clock (ticks are dropped while the channel is full)
	stubs["time.NewTicker"] = func(t *Thread, fn *ssa.Function, args []Value, pos token.Pos) Value {
		e := t.e
		d := args[0].(*Term)
		if t.truth(e.ts.Not(e.ts.BVCmp("bvslt", e.ts.BV(64, 0), d)), "ticker.period<=0") {
			t.goPanicf(pos, "non-positive interval for NewTicker", nil)
		}
		tt := fn.Signature.Results().At(0).Type().(*types.Pointer).Elem()
		cell := e.newCell(e.zero(tt))
		tm := e.addTimer(d)
		tm.ch = e.newChan(1)
		tm.ch.timer = tm
		tm.period = d
		tm.owner = cell
		e.timersCreated++
		cell.v.(*Struct).f[0].v = tm.ch
		if e.timerObjs == nil {
			e.timerObjs = map[*Cell]*Timer{}
		}
		e.timerObjs[cell] = tm
		return cell
	}
	stubs["(*time.Ticker).Stop"] = func(t *Thread, fn *ssa.Function, args []Value, pos token.Pos) Value {
		e := t.e
		cell := t.derefPtr(args[0], pos)
		if tm := e.timerOf(cell); tm != nil {
			tm.fired = true
			tm.period = nil
		}
		return nil
	}
}

func init() {
	// reflect.New(T): a Value holding a *T that points to a fresh zero T
	stubs["reflect.New"] = func(t *Thread, fn *ssa.Function, args []Value, pos token.Pos) Value {
		e := t.e
		rt, ok := args[0].(*RType)
		if !ok {
			if i, isI := args[0].(Iface); isI {
				rt, ok = i.v.(*RType)
			}
		}
		if !ok || rt == nil || rt.t == nil {
			e.unsupported("reflect.New of an unknown type")
		}
		cell := e.newCell(e.zero(rt.t))
		return &RValue{valid: true, t: types.NewPointer(rt.t), v: cell}
	}
}

func init() {
	// context.WithValue asks reflectlite whether the key is comparable
	stubs["internal/reflectlite.TypeOf"] = stubReflectTypeOf
}
