package main

// Environment stubs: fmt, errors, reflect, encoding/json, time, sync (documented contracts only).

import (
	"fmt"
	"go/token"
	"go/types"
	"runtime"
	"strings"

	"golang.org/x/tools/go/ssa"
)

func runtimeStack(b []byte) int { return runtime.Stack(b, false) }

type stubFn func(t *Thread, fn *ssa.Function, args []Value, pos token.Pos) Value

var stubs map[string]stubFn

var (
	engineErrPlain types.Type // *errorString-like: no Unwrap
	engineErrWrap1 types.Type // Unwrap() error
	engineErrWrapN types.Type // Unwrap() []error
	engineErrPtr   types.Type // alias of plain (opaque external errors)
	rtypeType      types.Type
	opaqueBytes    types.Type
)

func mkErrType(name string, unwrap int) types.Type {
	pkg := types.NewPackage("flytsym/rt", "rt")
	tn := types.NewTypeName(token.NoPos, pkg, name, nil)
	named := types.NewNamed(tn, types.NewStruct(nil, nil), nil)
	ptr := types.NewPointer(named)
	recv := func() *types.Var { return types.NewVar(token.NoPos, pkg, "e", ptr) }
	res := func(t types.Type) *types.Tuple { return types.NewTuple(types.NewVar(token.NoPos, pkg, "", t)) }
	named.AddMethod(types.NewFunc(token.NoPos, pkg, "Error", types.NewSignatureType(recv(), nil, nil, nil, res(types.Typ[types.String]), false)))
	switch unwrap {
	case 1:
		named.AddMethod(types.NewFunc(token.NoPos, pkg, "Unwrap", types.NewSignatureType(recv(), nil, nil, nil, res(errorType), false)))
	case 2:
		named.AddMethod(types.NewFunc(token.NoPos, pkg, "Unwrap", types.NewSignatureType(recv(), nil, nil, nil, res(types.NewSlice(errorType)), false)))
	}
	return ptr
}

func init() {
	engineErrPlain = mkErrType("errorString", 0)
	engineErrWrap1 = mkErrType("wrapError", 1)
	engineErrWrapN = mkErrType("wrapErrors", 2)
	engineErrPtr = engineErrPlain
	pkg := types.NewPackage("flytsym/rt", "rt")
	rtypeType = types.NewPointer(types.NewNamed(types.NewTypeName(token.NoPos, pkg, "rtype", nil), types.NewStruct(nil, nil), nil))

	stubs = map[string]stubFn{
		"fmt.Errorf":  stubErrorf,
		"fmt.Sprintf": stubSprintf,
		"fmt.Sprint":  stubSprintf,
		"fmt.Println": func(*Thread, *ssa.Function, []Value, token.Pos) Value { return Tuple{nil, Iface{}} },
		"fmt.Printf":  func(*Thread, *ssa.Function, []Value, token.Pos) Value { return Tuple{nil, Iface{}} },
		"errors.New":    stubErrorsNew,
		"errors.Is":     stubErrorsIs,
		"errors.As":     stubErrorsAs,
		"errors.Unwrap": stubErrorsUnwrap,
		"errors.Join":   stubErrorsJoin,

		"(*sync.Mutex).Lock":      stubLock,
		"(*sync.Mutex).Unlock":    stubUnlock,
		"(*sync.RWMutex).Lock":    stubLock,
		"(*sync.RWMutex).Unlock":  stubUnlock,
		"(*sync.RWMutex).RLock":   stubRLock,
		"(*sync.RWMutex).RUnlock": stubRUnlock,
		"(*sync.WaitGroup).Add":   stubWGAdd,
		"(*sync.WaitGroup).Done":  stubWGDone,
		"(*sync.WaitGroup).Wait":  stubWGWait,

		"sync/atomic.LoadInt32":  stubAtomicLoad,
		"sync/atomic.LoadInt64":  stubAtomicLoad,
		"sync/atomic.StoreInt32": stubAtomicStore,
		"sync/atomic.StoreInt64": stubAtomicStore,
		"sync/atomic.AddInt32":   stubAtomicAdd,
		"sync/atomic.AddInt64":   stubAtomicAdd,

		"time.After": stubTimeAfter,
		"time.Sleep": stubTimeSleep,

		"reflect.ValueOf":           stubReflectValueOf,
		"reflect.TypeOf":            stubReflectTypeOf,
		"(reflect.Value).Kind":      stubRVKind,
		"(reflect.Value).IsNil":     stubRVIsNil,
		"(reflect.Value).Type":      stubRVType,
		"(reflect.Value).Elem":      stubRVElem,
		"(reflect.Value).Set":       stubRVSet,
		"(reflect.Value).Len":       stubRVLen,
		"(reflect.Value).Index":     stubRVIndex,
		"(reflect.Value).Interface": stubRVInterface,
		"(reflect.Value).IsValid":   stubRVIsValid,
		"(reflect.Value).CanSet":    stubRVCanSet,

		"encoding/json.Marshal":   stubJSONMarshal,
		"encoding/json.Unmarshal": stubJSONUnmarshal,
	}
}

// nativeMethod maps an invoke on an engine-native dynamic value to a builtin closure name.
func nativeMethod(ifc Iface, name string) string {
	switch ifc.v.(type) {
	case *ErrObj:
		return "err." + name
	case *RType:
		return "rtype." + name
	}
	return ""
}

func callNative(t *Thread, c *Closure, args []Value, pos token.Pos) Value {
	e := t.e
	switch c.builtin {
	case "err.Error":
		return c.recv.(*ErrObj).msg
	case "err.Unwrap":
		eo := c.recv.(*ErrObj)
		if len(eo.wraps) == 1 && !eo.multi {
			return eo.wraps[0]
		}
		cells := make([]*Cell, len(eo.wraps))
		for i, w := range eo.wraps {
			cells[i] = e.newCell(w)
		}
		return Slice{cells: cells, n: len(cells)}
	case "rtype.Elem":
		rt := c.recv.(*RType)
		switch u := rt.t.Underlying().(type) {
		case *types.Pointer:
			return Iface{t: rtypeType, v: &RType{u.Elem()}}
		case *types.Slice:
			return Iface{t: rtypeType, v: &RType{u.Elem()}}
		case *types.Array:
			return Iface{t: rtypeType, v: &RType{u.Elem()}}
		case *types.Map:
			return Iface{t: rtypeType, v: &RType{u.Elem()}}
		case *types.Chan:
			return Iface{t: rtypeType, v: &RType{u.Elem()}}
		}
		t.goPanicf(pos, "reflect: Elem of invalid type "+rt.t.String(), nil)
	case "rtype.AssignableTo", "rtype.ConvertibleTo", "rtype.Implements":
		rt := c.recv.(*RType)
		o, ok := args[0].(Iface)
		if !ok || o.t == nil {
			t.goPanicf(pos, "reflect: nil type passed to Type."+c.builtin[6:], nil)
		}
		ot := o.v.(*RType).t
		switch c.builtin {
		case "rtype.AssignableTo":
			return e.ts.Bool(types.AssignableTo(rt.t, ot))
		case "rtype.ConvertibleTo":
			return e.ts.Bool(types.ConvertibleTo(rt.t, ot))
		default:
			it, isI := ot.Underlying().(*types.Interface)
			if !isI {
				t.goPanicf(pos, "reflect: non-interface type passed to Type.Implements", nil)
			}
			return e.ts.Bool(types.Implements(rt.t, it))
		}
	case "rtype.Comparable":
		return e.ts.Bool(types.Comparable(c.recv.(*RType).t))
	case "rtype.Kind":
		return e.ts.BV(64, uint64(kindOf(c.recv.(*RType).t)))
	case "rtype.String", "rtype.Name":
		return e.ts.BV(32, uint64(e.eng.intern(c.recv.(*RType).t.String())))
	}
	e.unsupported("native method " + c.builtin)
	return nil
}

// ---------------------------------------------------------------- fmt / errors

func (e *Exec) freshStr(prefix string) *Term {
	e.errSeq++
	return e.ts.Var(fmt.Sprintf("%s_%d", prefix, e.errSeq), StrSort)
}

func variadicArgs(v Value) []Value {
	s, ok := v.(Slice)
	if !ok {
		return nil
	}
	out := make([]Value, s.n)
	for i := 0; i < s.n; i++ {
		out[i] = s.cells[i].v
	}
	return out
}

func stubErrorf(t *Thread, fn *ssa.Function, args []Value, pos token.Pos) Value {
	e := t.e
	f := args[0].(*Term)
	if !f.IsConst {
		e.unsupported("fmt.Errorf with non-constant format at " + t.posOf(pos))
	}
	format := e.eng.strOf(uint32(f.C))
	va := variadicArgs(args[1])
	eo := &ErrObj{msg: e.freshStr("errmsg"), name: format}
	e.errSeq++
	eo.id = e.errSeq
	ai := 0
	nw := 0
	for i := 0; i < len(format); i++ {
		if format[i] != '%' {
			continue
		}
		i++
		// flags / width / precision
		for i < len(format) && strings.ContainsRune("+-# 0123456789.*[]", rune(format[i])) {
			if format[i] == '*' {
				ai++
			}
			i++
		}
		if i >= len(format) {
			break
		}
		if format[i] == '%' {
			continue
		}
		if format[i] == 'w' && ai < len(va) {
			if ifc, ok := va[ai].(Iface); ok && ifc.t != nil && types.Implements(ifc.t, errorType.Underlying().(*types.Interface)) {
				eo.wraps = append(eo.wraps, ifc)
			}
			nw++
		}
		ai++
	}
	ty := engineErrPlain
	switch {
	case nw == 1:
		ty = engineErrWrap1
		if len(eo.wraps) == 0 {
			// %w of a nil / non-error operand: Unwrap() returns nil
			eo.wraps = []Value{Iface{}}
		}
	case nw > 1:
		ty = engineErrWrapN
		eo.multi = true
	}
	return Iface{t: ty, v: eo}
}

func stubSprintf(t *Thread, fn *ssa.Function, args []Value, pos token.Pos) Value {
	// Sprintf("%T", x): the dynamic type's name as fmt prints it (package-qualified by package NAME)
	if f, ok := args[0].(*Term); ok && f.IsConst && t.e.eng.strOf(uint32(f.C)) == "%T" {
		if sl, ok := t.conc(args[1]).(Slice); ok && sl.n == 1 {
			if x, ok := t.conc(sl.cells[0].v).(Iface); ok {
				name := "<nil>"
				if x.t != nil {
					name = types.TypeString(x.t, func(p *types.Package) string { return p.Name() })
					name = strings.ReplaceAll(name, "interface{}", "interface {}")
					name = strings.ReplaceAll(name, "any", "interface {}")
				}
				return t.e.ts.BV(32, uint64(t.e.eng.intern(name)))
			}
		}
	}
	return t.e.freshStr("fmtstr")
}

func stubErrorsNew(t *Thread, fn *ssa.Function, args []Value, pos token.Pos) Value {
	e := t.e
	e.errSeq++
	name := "errors.New"
	if m := args[0].(*Term); m.IsConst {
		name = e.eng.strOf(uint32(m.C))
	}
	return Iface{t: engineErrPlain, v: &ErrObj{msg: args[0].(*Term), id: e.errSeq, name: name}}
}

// truth forks on a symbolic boolean.
func (t *Thread) truth(c *Term, what string) bool {
	if c.IsConst {
		return c.C == 1
	}
	return t.e.choose(what, []*Term{c, t.e.ts.Not(c)}) == 0
}

func (t *Thread) hasMethod(ifc Iface, name string) *ssa.Function {
	if ifc.t == nil {
		return nil
	}
	if _, ok := ifc.v.(*ErrObj); ok {
		return nil
	}
	ms := t.e.eng.prog.MethodSets.MethodSet(ifc.t)
	for i := 0; i < ms.Len(); i++ {
		if ms.At(i).Obj().Name() == name {
			return t.e.eng.prog.MethodValue(ms.At(i))
		}
	}
	return nil
}

// unwrapAll returns the errors directly wrapped by err.
func (t *Thread) unwrapAll(err Iface, pos token.Pos) []Iface {
	if eo, ok := err.v.(*ErrObj); ok {
		var out []Iface
		for _, w := range eo.wraps {
			if wi := w.(Iface); wi.t != nil {
				out = append(out, wi)
			}
		}
		return out
	}
	if m := t.hasMethod(err, "Unwrap"); m != nil {
		r := t.callFn(m, []Value{err.v}, nil, pos)
		switch x := t.conc(r).(type) {
		case Iface:
			if x.t != nil {
				return []Iface{x}
			}
		case Slice:
			var out []Iface
			for i := 0; i < x.n; i++ {
				if wi := x.cells[i].v.(Iface); wi.t != nil {
					out = append(out, wi)
				}
			}
			return out
		}
	}
	return nil
}

func (t *Thread) errorsIs(err, target Iface, pos token.Pos, depth int) bool {
	if depth > 32 {
		t.e.unsupported("errors.Is chain too deep")
	}
	if err.t == nil || target.t == nil {
		return err.t == nil && target.t == nil
	}
	if comparableType(target.t) && types.Identical(err.t, target.t) {
		if t.truth(t.eqValue(err, target, errorType, pos), "errors.Is==") {
			return true
		}
	}
	if m := t.hasMethod(err, "Is"); m != nil {
		r := t.callFn(m, []Value{err.v, target}, nil, pos)
		if b, ok := r.(*Term); ok && t.truth(b, "errors.Is.method") {
			return true
		}
	}
	for _, w := range t.unwrapAll(err, pos) {
		if t.errorsIs(w, target, pos, depth+1) {
			return true
		}
	}
	return false
}

func stubErrorsIs(t *Thread, fn *ssa.Function, args []Value, pos token.Pos) Value {
	a := t.conc(args[0]).(Iface)
	b := t.conc(args[1]).(Iface)
	return t.e.ts.Bool(t.errorsIs(a, b, pos, 0))
}

func stubErrorsAs(t *Thread, fn *ssa.Function, args []Value, pos token.Pos) Value {
	e := t.e
	err := t.conc(args[0]).(Iface)
	tgt := t.conc(args[1]).(Iface)
	if tgt.t == nil {
		t.goPanicf(pos, "errors: target cannot be nil", nil)
	}
	pt, ok := tgt.t.Underlying().(*types.Pointer)
	cell, _ := tgt.v.(*Cell)
	if !ok || cell == nil {
		t.goPanicf(pos, "errors: target must be a non-nil pointer", nil)
	}
	et := pt.Elem()
	var walk func(x Iface, d int) bool
	walk = func(x Iface, d int) bool {
		if x.t == nil || d > 32 {
			return false
		}
		if it, isI := et.Underlying().(*types.Interface); isI {
			if types.Implements(x.t, it) {
				e.storeInto(cell, x)
				return true
			}
		} else if types.Identical(x.t, et) {
			e.storeInto(cell, e.copyVal(x.v))
			return true
		}
		for _, w := range t.unwrapAll(x, pos) {
			if walk(w, d+1) {
				return true
			}
		}
		return false
	}
	return e.ts.Bool(walk(err, 0))
}

func stubErrorsUnwrap(t *Thread, fn *ssa.Function, args []Value, pos token.Pos) Value {
	err := t.conc(args[0]).(Iface)
	if err.t == nil {
		return Iface{}
	}
	if eo, ok := err.v.(*ErrObj); ok {
		if len(eo.wraps) == 1 && !eo.multi {
			return eo.wraps[0]
		}
		return Iface{}
	}
	if m := t.hasMethod(err, "Unwrap"); m != nil {
		r := t.callFn(m, []Value{err.v}, nil, pos)
		if x, ok := r.(Iface); ok {
			return x
		}
	}
	return Iface{}
}

func stubErrorsJoin(t *Thread, fn *ssa.Function, args []Value, pos token.Pos) Value {
	e := t.e
	eo := &ErrObj{msg: e.freshStr("joinmsg"), name: "errors.Join", multi: true}
	for _, a := range variadicArgs(args[0]) {
		if ifc := a.(Iface); ifc.t != nil {
			eo.wraps = append(eo.wraps, ifc)
		}
	}
	if len(eo.wraps) == 0 {
		return Iface{}
	}
	e.errSeq++
	eo.id = e.errSeq
	return Iface{t: engineErrWrapN, v: eo}
}

// ---------------------------------------------------------------- reflect

func kindOf(t types.Type) int {
	switch u := t.Underlying().(type) {
	case *types.Basic:
		switch u.Kind() {
		case types.Bool:
			return 1
		case types.Int:
			return 2
		case types.Int8:
			return 3
		case types.Int16:
			return 4
		case types.Int32:
			return 5
		case types.Int64:
			return 6
		case types.Uint:
			return 7
		case types.Uint8:
			return 8
		case types.Uint16:
			return 9
		case types.Uint32:
			return 10
		case types.Uint64:
			return 11
		case types.Uintptr:
			return 12
		case types.Float32:
			return 13
		case types.Float64:
			return 14
		case types.Complex64:
			return 15
		case types.Complex128:
			return 16
		case types.String:
			return 24
		case types.UnsafePointer:
			return 26
		}
	case *types.Array:
		return 17
	case *types.Chan:
		return 18
	case *types.Signature:
		return 19
	case *types.Interface:
		return 20
	case *types.Map:
		return 21
	case *types.Pointer:
		return 22
	case *types.Slice:
		return 23
	case *types.Struct:
		return 25
	}
	return 0
}

func stubReflectValueOf(t *Thread, fn *ssa.Function, args []Value, pos token.Pos) Value {
	x := t.conc(args[0]).(Iface)
	if x.t == nil {
		return &RValue{}
	}
	return &RValue{valid: true, t: x.t, v: x.v}
}

func stubReflectTypeOf(t *Thread, fn *ssa.Function, args []Value, pos token.Pos) Value {
	x := t.conc(args[0]).(Iface)
	if x.t == nil {
		return Iface{}
	}
	return Iface{t: rtypeType, v: &RType{x.t}}
}

func rv(args []Value) *RValue { return args[0].(*RValue) }

func stubRVKind(t *Thread, fn *ssa.Function, args []Value, pos token.Pos) Value {
	r := rv(args)
	if !r.valid {
		return t.e.ts.BV(64, 0)
	}
	return t.e.ts.BV(64, uint64(kindOf(r.t)))
}

func stubRVIsValid(t *Thread, fn *ssa.Function, args []Value, pos token.Pos) Value {
	return t.e.ts.Bool(rv(args).valid)
}

func stubRVCanSet(t *Thread, fn *ssa.Function, args []Value, pos token.Pos) Value {
	return t.e.ts.Bool(rv(args).addr != nil)
}

func stubRVIsNil(t *Thread, fn *ssa.Function, args []Value, pos token.Pos) Value {
	r := rv(args)
	if !r.valid {
		t.goPanicf(pos, "reflect: call of reflect.Value.IsNil on zero Value", nil)
	}
	switch kindOf(r.t) {
	case 18, 19, 20, 21, 22, 23, 26:
		return t.e.ts.Bool(isNilValue(r.v))
	}
	t.goPanicf(pos, "reflect: call of reflect.Value.IsNil on "+r.t.String()+" Value", nil)
	return nil
}

func stubRVType(t *Thread, fn *ssa.Function, args []Value, pos token.Pos) Value {
	r := rv(args)
	if !r.valid {
		t.goPanicf(pos, "reflect: call of reflect.Value.Type on zero Value", nil)
	}
	return Iface{t: rtypeType, v: &RType{r.t}}
}

func stubRVElem(t *Thread, fn *ssa.Function, args []Value, pos token.Pos) Value {
	r := rv(args)
	if !r.valid {
		t.goPanicf(pos, "reflect: call of reflect.Value.Elem on zero Value", nil)
	}
	switch u := r.t.Underlying().(type) {
	case *types.Pointer:
		c := r.v.(*Cell)
		if c == nil {
			return &RValue{}
		}
		return &RValue{valid: true, t: u.Elem(), v: c.v, addr: c}
	case *types.Interface:
		x := r.v.(Iface)
		if x.t == nil {
			return &RValue{}
		}
		return &RValue{valid: true, t: x.t, v: x.v}
	}
	t.goPanicf(pos, "reflect: call of reflect.Value.Elem on "+r.t.String()+" Value", nil)
	return nil
}

func stubRVSet(t *Thread, fn *ssa.Function, args []Value, pos token.Pos) Value {
	e := t.e
	r := rv(args)
	x := args[1].(*RValue)
	if !r.valid || r.addr == nil {
		t.goPanicf(pos, "reflect: reflect.Value.Set using unaddressable value", nil)
	}
	if !x.valid {
		t.goPanicf(pos, "reflect: call of reflect.Value.Set on zero Value", nil)
	}
	if _, isI := r.t.Underlying().(*types.Interface); isI {
		if !types.AssignableTo(x.t, r.t) {
			t.goPanicf(pos, "reflect.Set: value of type "+x.t.String()+" is not assignable to type "+r.t.String(), nil)
		}
		t.accessCell(r.addr, true, pos)
		e.storeInto(r.addr, Iface{t: x.t, v: e.copyVal(x.v)})
		return nil
	}
	if !types.Identical(x.t, r.t) && !types.AssignableTo(x.t, r.t) {
		t.goPanicf(pos, "reflect.Set: value of type "+x.t.String()+" is not assignable to type "+r.t.String(), nil)
	}
	t.accessCell(r.addr, true, pos)
	e.storeInto(r.addr, e.copyVal(x.v))
	return nil
}

func stubRVLen(t *Thread, fn *ssa.Function, args []Value, pos token.Pos) Value {
	r := rv(args)
	if r.valid {
		switch x := r.v.(type) {
		case Slice:
			return t.e.ts.BV(64, uint64(x.n))
		case *Array:
			return t.e.ts.BV(64, uint64(len(x.e)))
		case *MapObj:
			if x == nil {
				return t.e.ts.BV(64, 0)
			}
			return t.e.ts.BV(64, uint64(len(x.ents)))
		case *ChanObj:
			if x == nil {
				return t.e.ts.BV(64, 0)
			}
			return t.e.ts.BV(64, uint64(len(x.buf)))
		case *Term:
			if kindOf(r.t) == 24 {
				if x.IsConst {
					return t.e.ts.BV(64, uint64(len(t.e.eng.strOf(uint32(x.C)))))
				}
				return t.e.ts.UF("str_len", BV64, x)
			}
		}
	}
	t.goPanicf(pos, "reflect: call of reflect.Value.Len on invalid Value", nil)
	return nil
}

func stubRVIndex(t *Thread, fn *ssa.Function, args []Value, pos token.Pos) Value {
	r := rv(args)
	idx := args[1].(*Term)
	if r.valid {
		switch x := r.v.(type) {
		case Slice:
			et := r.t.Underlying().(*types.Slice).Elem()
			if !idx.IsConst {
				i := t.concIndex(idx, x.n, pos)
				return &RValue{valid: true, t: et, v: x.cells[i].v, addr: x.cells[i]}
			}
			i := int(int64(idx.C))
			if i < 0 || i >= x.n {
				t.goPanicf(pos, "reflect: slice index out of range", nil)
			}
			t.accessCell(x.cells[i], false, pos)
			return &RValue{valid: true, t: et, v: x.cells[i].v, addr: x.cells[i]}
		case *Array:
			et := r.t.Underlying().(*types.Array).Elem()
			i := t.concIndex(idx, len(x.e), pos)
			return &RValue{valid: true, t: et, v: x.e[i].v}
		}
	}
	t.goPanicf(pos, "reflect: call of reflect.Value.Index on invalid Value", nil)
	return nil
}

func stubRVInterface(t *Thread, fn *ssa.Function, args []Value, pos token.Pos) Value {
	r := rv(args)
	if !r.valid {
		t.goPanicf(pos, "reflect: call of reflect.Value.Interface on zero Value", nil)
	}
	if _, isI := r.t.Underlying().(*types.Interface); isI {
		return r.v // already an interface value
	}
	return Iface{t: r.t, v: t.e.copyVal(r.v)}
}

// ---------------------------------------------------------------- encoding/json (uninterpreted, memoised for congruence)

type jsonMemo struct {
	marshal   map[string]*jsonM
	unmarshal map[string]*jsonU
}
type jsonM struct {
	bytes *Opaque
	err   *Term
	eobj  Iface
}
type jsonU struct {
	err  *Term
	eobj Iface
	val  Value
}

func (e *Exec) valueKey(v Value) string {
	switch x := v.(type) {
	case *Term:
		return fmt.Sprintf("t%d", x.id)
	case *Cell:
		if x == nil {
			return "nilp"
		}
		return fmt.Sprintf("&%d", x.id)
	case Iface:
		if x.t == nil {
			return "nil"
		}
		return "i(" + x.t.String() + ":" + e.valueKey(x.v) + ")"
	case *Struct:
		s := "{"
		for _, c := range x.f {
			s += e.valueKey(c.v) + ","
		}
		return s + "}"
	case *Array:
		s := "[#"
		for _, c := range x.e {
			s += e.valueKey(c.v) + ","
		}
		return s + "]"
	case Slice:
		if x.isNil {
			return "nils"
		}
		s := "["
		for i := 0; i < x.n; i++ {
			s += e.valueKey(x.cells[i].v) + ","
		}
		return s + "]"
	case *MapObj:
		if x == nil {
			return "nilm"
		}
		s := "m{"
		for _, en := range x.ents {
			s += e.valueKey(en.k) + ":" + e.valueKey(en.c.v) + ","
		}
		return s + "}"
	case *Opaque:
		return fmt.Sprintf("o%p", x)
	case *ErrObj:
		return fmt.Sprintf("e%d", x.id)
	case *Closure:
		if x == nil {
			return "nilf"
		}
		if x.fn != nil {
			k := "fn:" + x.fn.String() + "("
			for _, v := range x.env {
				k += e.valueKey(v) + ","
			}
			return k + ")"
		}
		return fmt.Sprintf("f%p", x)
	case *ChanObj:
		return fmt.Sprintf("c%p", x)
	case nil:
		return "nil"
	}
	return fmt.Sprintf("%T", v)
}

func stubJSONMarshal(t *Thread, fn *ssa.Function, args []Value, pos token.Pos) Value {
	e := t.e
	if e.json == nil {
		e.json = &jsonMemo{marshal: map[string]*jsonM{}, unmarshal: map[string]*jsonU{}}
	}
	k := e.valueKey(t.conc(args[0]))
	m := e.json.marshal[k]
	if m == nil {
		n := len(e.json.marshal)
		m = &jsonM{bytes: &Opaque{kind: "json", data: n}, err: e.envBool(fmt.Sprintf("json_merr_%d", n), "json.marshal.err")}
		e.errSeq++
		m.eobj = Iface{t: engineErrPlain, v: &ErrObj{msg: e.freshStr("jsonerr"), id: e.errSeq, name: "json.Marshal error"}}
		e.json.marshal[k] = m
	}
	if t.truth(m.err, "json.Marshal.err") {
		return Tuple{Slice{isNil: true}, m.eobj}
	}
	return Tuple{Slice{cells: []*Cell{e.newCell(m.bytes)}, n: 1}, Iface{}}
}

func stubJSONUnmarshal(t *Thread, fn *ssa.Function, args []Value, pos token.Pos) Value {
	e := t.e
	if e.json == nil {
		e.json = &jsonMemo{marshal: map[string]*jsonM{}, unmarshal: map[string]*jsonU{}}
	}
	b := t.conc(args[0]).(Slice)
	dest := t.conc(args[1]).(Iface)
	mkErr := func(name string) Iface {
		e.errSeq++
		return Iface{t: engineErrPlain, v: &ErrObj{msg: e.freshStr("jsonerr"), id: e.errSeq, name: name}}
	}
	if dest.t == nil {
		return mkErr("json: Unmarshal(nil)")
	}
	pt, ok := dest.t.Underlying().(*types.Pointer)
	if !ok {
		return mkErr("json: Unmarshal(non-pointer)")
	}
	cell := dest.v.(*Cell)
	if cell == nil {
		return mkErr("json: Unmarshal(nil pointer)")
	}
	bk := "nil"
	if !b.isNil && b.n > 0 {
		bk = e.valueKey(b.cells[0].v)
	}
	k := bk + "->" + pt.Elem().String()
	switch pt.Elem().Underlying().(type) {
	case *types.Struct, *types.Map:
		// json.Unmarshal MERGES into structs and maps (fields / keys absent from the document keep
		// what the destination held): the outcome is a function of the destination's prior content too
		k += "|prior=" + e.valueKey(cell.v)
	}
	u := e.json.unmarshal[k]
	if u == nil {
		n := len(e.json.unmarshal)
		u = &jsonU{err: e.envBool(fmt.Sprintf("json_uerr_%d", n), "json.unmarshal.err"), eobj: mkErr("json.Unmarshal error")}
		u.val = e.havoc(pt.Elem(), fmt.Sprintf("json_u%d", n), 0)
		e.json.unmarshal[k] = u
	}
	if t.truth(u.err, "json.Unmarshal.err") {
		return u.eobj
	}
	t.accessCell(cell, true, pos)
	e.storeInto(cell, e.copyVal(u.val))
	return Iface{}
}

// havoc builds an unconstrained value of type ty (scalars fresh; references nil / opaque).
func (e *Exec) havoc(ty types.Type, name string, depth int) Value {
	switch u := ty.Underlying().(type) {
	case *types.Basic:
		if e.concrete != nil {
			bits := e.concrete[name]
			switch {
			case u.Info()&types.IsBoolean != 0:
				return e.ts.Bool(bits != 0)
			case u.Info()&types.IsInteger != 0:
				return e.ts.BV(intWidth(u), bits)
			case u.Info()&types.IsFloat != 0:
				if u.Kind() == types.Float32 {
					return e.ts.FPBits(32, bits)
				}
				return e.ts.FPBits(64, bits)
			case u.Info()&types.IsString != 0:
				return e.ts.BV(32, bits)
			}
		}
		switch {
		case u.Info()&types.IsBoolean != 0:
			return e.ts.Var(name, BoolSort)
		case u.Info()&types.IsInteger != 0:
			return e.ts.Var(name, Sort{SBV, intWidth(u)})
		case u.Info()&types.IsFloat != 0:
			if u.Kind() == types.Float32 {
				return e.ts.Var(name, Sort{SFP, 32})
			}
			return e.ts.Var(name, Sort{SFP, 64})
		case u.Info()&types.IsString != 0:
			return e.ts.Var(name, StrSort)
		}
	case *types.Struct:
		s := &Struct{f: make([]*Cell, u.NumFields())}
		for i := range s.f {
			s.f[i] = e.newCell(e.havoc(u.Field(i).Type(), fmt.Sprintf("%s_f%d", name, i), depth+1))
		}
		return s
	case *types.Array:
		a := &Array{e: make([]*Cell, int(u.Len()))}
		for i := range a.e {
			a.e[i] = e.newCell(e.havoc(u.Elem(), fmt.Sprintf("%s_e%d", name, i), depth+1))
		}
		return a
	case *types.Interface:
		// decoded into an interface: an opaque dynamic value
		return Iface{t: opaqueDyn, v: &Opaque{kind: "json-any:" + name}}
	}
	return e.zero(ty)
}

var opaqueDyn = types.NewNamed(types.NewTypeName(token.NoPos, types.NewPackage("flytsym/rt", "rt"), "jsonValue", nil), types.NewStruct(nil, nil), nil)

// envBool is a symbolic boolean chosen by the environment (a stub's uninterpreted outcome); under
// concrete re-execution it takes the model's value.
func (e *Exec) envBool(name, label string) *Term {
	if e.concrete != nil {
		return e.ts.Bool(e.concrete[name] != 0)
	}
	v := e.ts.Var(name, BoolSort)
	e.nondets = append(e.nondets, v)
	e.nondetLabels = append(e.nondetLabels, label)
	return v
}
