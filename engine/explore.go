package main

// Exploration driver: DFS over decision trails by re-execution, spread over worker goroutines
// (each with its own solver process).

import (
	"fmt"
	"sort"
	"sync"
	"time"

	"golang.org/x/tools/go/ssa"
)

type PathSample struct {
	Trail   []int             `json:"trail"`
	End     string            `json:"end"`
	Nondet  map[string]string `json:"nondet,omitempty"`
	Log     []LogEntry        `json:"log,omitempty"`
	Covers  []string          `json:"covers,omitempty"`
	Sched   []int             `json:"sched,omitempty"`
	Threads int               `json:"threads,omitempty"`
}

type Witness struct {
	Free   []int
	Trail  []int
	Model  map[string]uint64
	Covers []string
	Params map[string]int
}

type HarnessResult struct {
	Harness      string
	Params       map[string]int
	Paths        int
	Ends         map[string]int
	Violations   []*Violation
	Covers       map[string]int
	Asserts      map[string]int
	Steps        int
	Transitions  int
	Queries      int
	AssertQ      int
	AssertUnsat  int
	AssertFolded int
	Folded       int
	Unknowns     []string
	Inconclusive []string
	Stubs        map[string]int
	Solver       SolverStats
	Samples      []PathSample
	Witnesses    []Witness
	MaxThreads   int
	SchedPaths   int
	Wall         time.Duration
	TimedOut     bool
	ParamsUsed   map[string]int
	UnwindMax    int
	CacheHits    int
	StoppedOnViolations bool
	CrossChecked, CrossUnknown, CrossDisagree, RangeExcluded int
	Fns          map[string]int
}

const maxViolationsPerHarness = 3

type workItem struct {
	trail []int
	model map[string]uint64
}

func (g *Engine) Explore(harness string, params map[string]int, nworkers int, deadline time.Time, maxWitness int) *HarnessResult {
	entry := g.pkg.Func(harness)
	res := &HarnessResult{Harness: harness, Params: params, Ends: map[string]int{}, Covers: map[string]int{},
		Asserts: map[string]int{}, Stubs: map[string]int{}, ParamsUsed: map[string]int{}, Fns: map[string]int{}}
	if entry == nil {
		res.Inconclusive = append(res.Inconclusive, "harness function not found: "+harness)
		return res
	}
	t0 := time.Now()
	var mu sync.Mutex
	cond := sync.NewCond(&mu)
	work := []workItem{{nil, nil}}
	active := 0
	stop := false
	sigSeen := map[string]bool{}
	coverWit := map[string]bool{}

	worker := func(wid int) {
		s, err := NewSolver("z3", g.cfg.QueryTimeout)
		if err != nil {
			mu.Lock()
			res.Inconclusive = append(res.Inconclusive, "cannot start solver: "+err.Error())
			stop = true
			cond.Broadcast()
			mu.Unlock()
			return
		}
		var s2 *Solver
		crossBudget := g.cfg.CrossCheck
		if g.cfg.CrossCheck > 0 {
			s2, _ = NewSolver("cvc5", g.cfg.QueryTimeout)
		}
		defer func() {
			if s2 != nil {
				s2.Close()
			}
		}()
		defer func() {
			mu.Lock()
			res.Solver.Sat += s.Stats.Sat
			res.Solver.Unsat += s.Stats.Unsat
			res.Solver.Unknown += s.Stats.Unknown
			res.Solver.Errors += s.Stats.Errors
			res.Solver.Time += s.Stats.Time
			mu.Unlock()
			s.Close()
		}()
		for {
			mu.Lock()
			for len(work) == 0 && active > 0 && !stop {
				cond.Wait()
			}
			if stop || (len(work) == 0 && active == 0) {
				cond.Broadcast()
				mu.Unlock()
				return
			}
			it := work[len(work)-1]
			work = work[:len(work)-1]
			active++
			mu.Unlock()

			e := g.newExec(harness, it.trail, s)
			e.params = params
			e.paramsUsed = map[string]int{}
			e.trailModel = it.model
			e.solver2 = s2
			e.crossBudget = &crossBudget
			e.runPath(entry)
			var wmodel map[string]uint64
			feasibleEnd := true
			if e.endKind == "complete" {
				// final feasibility check doubles as witness model (anti-vacuity)
				if len(e.pc) > 0 || len(e.nondets) > 0 {
					m, ok := e.modelNow(nil)
					if !ok {
						feasibleEnd = false
					}
					wmodel = m
				} else {
					wmodel = map[string]uint64{}
				}
			}
			e.ps.Finish()
			if s.dead {
				// restart the solver for the next path
				s.Close()
				ns, err := NewSolver("z3", g.cfg.QueryTimeout)
				if err == nil {
					ns.Stats = s.Stats
					s = ns
				}
			}

			mu.Lock()
			active--
			res.Paths++
			kind := e.endKind
			if kind == "complete" && !feasibleEnd {
				kind = "infeasible-at-end"
			}
			res.Ends[kind]++
			res.Steps += e.steps
			res.Transitions += e.transitions
			res.Queries += e.queries
			res.AssertQ += e.assertQueries
			res.AssertUnsat += e.assertUnsat
			res.AssertFolded += e.assertFolded
			res.Folded += e.foldedBranches
			if len(e.threads) > res.MaxThreads {
				res.MaxThreads = len(e.threads)
			}
			for k, v := range e.paramsUsed {
				res.ParamsUsed[k] = v
			}
			for k, v := range e.stubs {
				res.Stubs[k] += v
			}
			for f, n := range e.fnOwn {
				res.Fns[f.String()] += n
			}
			if len(e.unknowns) > 0 {
				for _, u := range e.unknowns {
					if len(res.Unknowns) < 20 {
						res.Unknowns = append(res.Unknowns, u)
					}
				}
				res.Inconclusive = appendUniq(res.Inconclusive, "solver unknown/error on a path")
			}
			switch kind {
			case "unsupported", "unwind", "budget", "fatal":
				res.Inconclusive = appendUniq(res.Inconclusive, kind+": "+e.endMsg)
			}
			if kind == "complete" {
				for c := range e.covers {
					res.Covers[c]++
				}
				for a, n := range e.asserts {
					res.Asserts[a] += n
				}
			} else if kind == "panic" || kind == "deadlock" || kind == "asserted" {
				for a, n := range e.asserts {
					res.Asserts[a] += n
				}
			}
			for _, v := range e.violations {
				if !sigSeen[v.Sig] {
					sigSeen[v.Sig] = true
					res.Violations = append(res.Violations, v)
				}
			}
			if len(res.Samples) < 6 && (kind == "complete" || len(e.violations) > 0) {
				res.Samples = append(res.Samples, e.sample(kind, wmodel))
			}
			if kind == "complete" && wmodel != nil && len(res.Witnesses) < maxWitness {
				novel := len(res.Witnesses) < 2
				var cs []string
				for c := range e.covers {
					cs = append(cs, c)
					if !coverWit[c] {
						novel = true
					}
				}
				if novel {
					sort.Strings(cs)
					for _, c := range cs {
						coverWit[c] = true
					}
					res.Witnesses = append(res.Witnesses, Witness{Trail: append([]int{}, e.taken...), Free: append([]int{}, e.freeTaken...), Model: wmodel, Covers: cs})
				}
			}
			for i, w := range e.newWork {
				work = append(work, workItem{w, e.newWorkModels[i]})
			}
			res.CacheHits += e.cacheHits + e.trivialFeasible
			res.CrossChecked += e.crossChecked
			res.CrossUnknown += e.crossUnknown
			res.CrossDisagree += e.crossDisagree
			res.RangeExcluded += e.rangeExcluded
			if time.Now().After(deadline) {
				stop = true
				res.TimedOut = true
			}
			if len(res.Violations) >= maxViolationsPerHarness && !stop {
				// enough distinct counterexamples: stop exploring (the run fails anyway)
				stop = true
				res.StoppedOnViolations = true
			}
			cond.Broadcast()
			mu.Unlock()
		}
	}
	var wg sync.WaitGroup
	for i := 0; i < nworkers; i++ {
		wg.Add(1)
		go func(i int) { defer wg.Done(); worker(i) }(i)
	}
	wg.Wait()
	if res.TimedOut {
		res.Inconclusive = appendUniq(res.Inconclusive, fmt.Sprintf("exploration did not finish inside its time cap (%d paths done, %d pending)", res.Paths, len(work)))
	}
	res.Wall = time.Since(t0)
	return res
}

func appendUniq(l []string, s string) []string {
	for _, x := range l {
		if x == s {
			return l
		}
	}
	if len(l) >= 12 {
		return l
	}
	return append(l, s)
}

func (e *Exec) sample(kind string, model map[string]uint64) PathSample {
	ps := PathSample{Trail: append([]int{}, e.taken...), End: kind, Log: e.log, Threads: len(e.threads)}
	if len(ps.Trail) > 64 {
		ps.Trail = ps.Trail[:64]
	}
	if len(e.schedTrace) > 0 {
		ps.Sched = e.schedTrace
		if len(ps.Sched) > 64 {
			ps.Sched = ps.Sched[:64]
		}
	}
	for c := range e.covers {
		ps.Covers = append(ps.Covers, c)
	}
	sort.Strings(ps.Covers)
	if model != nil {
		ps.Nondet = map[string]string{}
		for _, k := range e.nondetKeys {
			if bits, ok := model[k.name]; ok {
				ps.Nondet[k.key] = e.renderBits(k, bits)
			}
		}
	}
	return ps
}

func (e *Exec) renderBits(k nondetKey, bits uint64) string {
	switch {
	case k.isStr:
		return fmt.Sprintf("%q", e.eng.strOf(uint32(bits)))
	case k.s.K == SBool:
		return fmt.Sprint(bits != 0)
	case k.s.K == SFP:
		return fmt.Sprintf("fp:%#x", bits)
	}
	return fmt.Sprint(sext(bits, k.s.W))
}

// Replay re-executes one trail (for debugging / concrete re-execution under a model).
func (g *Engine) RunTrail(harness string, params map[string]int, trail []int, concrete map[string]uint64) *Exec {
	entry := g.pkg.Func(harness)
	s, err := NewSolver("z3", g.cfg.QueryTimeout)
	if err != nil {
		panic(err)
	}
	defer s.Close()
	e := g.newExec(harness, trail, s)
	e.params = params
	e.paramsUsed = map[string]int{}
	e.concrete = concrete
	e.runPath(entry)
	e.ps.Finish()
	return e
}

var _ = ssa.Function{}
