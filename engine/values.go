package main

// Runtime values of the symbolic interpreter. The heap is concrete in shape (Go pointers
// between cells), symbolic in content (scalars are *Term).

import (
	"fmt"
	"go/token"
	"go/types"

	"golang.org/x/tools/go/ssa"
)

type Value interface{}

// Cell is an addressable memory location. A Go pointer value is a *Cell.
type Cell struct {
	v       Value
	harness bool // allocated by harness code (exempt from flyt race checks)
	lastW   epoch
	reads   []epoch
	guard   *guardSpec // vGuardedBy monitor
	id      int
}

type epoch struct {
	tid, clk int
	pos      token.Pos
}

// Struct and Array hold their elements in cells so that field/element addresses are stable.
type Struct struct{ f []*Cell }
type Array struct{ e []*Cell }

// Slice: cells spans [offset, cap) of the backing array; n is len.
type Slice struct {
	cells []*Cell
	n     int
	isNil bool
	// capT != nil: the capacity is symbolic and only known to be >= len(cells) (a make with a symbolic
	// capacity, "at least K spare slots" case); cap() answers capT, growing beyond the modelled window
	// is unsupported (never guessed)
	capT *Term
}

// Iface is an interface value; t == nil is the nil interface.
type Iface struct {
	t types.Type
	v Value
}

type MapObj struct {
	ents  []*mapEnt
	cell  *Cell // pseudo-cell for race detection / guard monitor on the map body
	vt    types.Type
}

type mapEnt struct {
	k Value
	c *Cell
}

type Closure struct {
	fn  *ssa.Function
	env []Value
	// for bound intrinsics / builtins
	builtin string
	recv    Value
}

type Tuple []Value

// Union is a lazily forked choice between values with exclusive guards.
type Union struct {
	alts   []UnionAlt
	chosen int // 1+index once concretised on this path (Union objects are path-local)
}
type UnionAlt struct {
	g *Term
	v Value
}

// ErrObj is an engine-made error (fmt.Errorf / errors.New / opaque external error).
type ErrObj struct {
	msg   *Term // string id
	wraps []Value // Iface values at %w positions
	name  string
	id    int
	multi bool
}

// Opaque is a value the engine does not look into (json bytes, reflect types, ...).
type Opaque struct {
	kind string
	t    *Term
	data interface{}
}

// RValue models reflect.Value.
type RValue struct {
	valid bool
	t     types.Type
	v     Value
	addr  *Cell // non-nil when addressable/settable (obtained via Elem of a pointer)
}

// RType models reflect.Type.
type RType struct{ t types.Type }

func isNilValue(v Value) bool {
	switch x := v.(type) {
	case nil:
		return true
	case *Cell:
		return x == nil
	case *MapObj:
		return x == nil
	case *Closure:
		return x == nil
	case *ChanObj:
		return x == nil
	case Iface:
		return x.t == nil
	case Slice:
		return x.isNil
	}
	return false
}

func (e *Exec) newCell(v Value) *Cell {
	e.cellSeq++
	return &Cell{v: v, id: e.cellSeq, harness: e.allocHarness}
}

// zero returns the zero Value of type t.
func (e *Exec) zero(t types.Type) Value {
	switch u := t.Underlying().(type) {
	case *types.Basic:
		switch {
		case u.Info()&types.IsBoolean != 0:
			return e.ts.Bool(false)
		case u.Info()&types.IsInteger != 0:
			return e.ts.BV(intWidth(u), 0)
		case u.Info()&types.IsFloat != 0:
			if u.Kind() == types.Float32 {
				return e.ts.FPBits(32, 0)
			}
			return e.ts.FPBits(64, 0)
		case u.Info()&types.IsString != 0:
			return e.ts.BV(32, 0)
		case u.Kind() == types.UnsafePointer:
			return (*Cell)(nil)
		case u.Kind() == types.UntypedNil:
			return nil
		}
		e.unsupported("zero of basic type " + t.String())
	case *types.Pointer:
		return (*Cell)(nil)
	case *types.Struct:
		s := &Struct{f: make([]*Cell, u.NumFields())}
		for i := range s.f {
			s.f[i] = e.newCell(e.zero(u.Field(i).Type()))
		}
		return s
	case *types.Array:
		a := &Array{e: make([]*Cell, int(u.Len()))}
		for i := range a.e {
			a.e[i] = e.newCell(e.zero(u.Elem()))
		}
		return a
	case *types.Slice:
		return Slice{isNil: true}
	case *types.Map:
		return (*MapObj)(nil)
	case *types.Chan:
		return (*ChanObj)(nil)
	case *types.Signature:
		return (*Closure)(nil)
	case *types.Interface:
		return Iface{}
	case *types.Tuple:
		tu := make(Tuple, u.Len())
		for i := range tu {
			tu[i] = e.zero(u.At(i).Type())
		}
		return tu
	}
	e.unsupported("zero of type " + t.String())
	return nil
}

func intWidth(b *types.Basic) int {
	switch b.Kind() {
	case types.Int8, types.Uint8:
		return 8
	case types.Int16, types.Uint16:
		return 16
	case types.Int32, types.Uint32:
		return 32
	case types.Int, types.Int64, types.Uint, types.Uint64, types.Uintptr, types.UntypedInt, types.UntypedRune:
		return 64
	}
	return 64
}

func isSigned(t types.Type) bool {
	b, ok := t.Underlying().(*types.Basic)
	return ok && b.Info()&types.IsUnsigned == 0
}

// copyVal makes an independent copy of aggregate values (Go value semantics).
func (e *Exec) copyVal(v Value) Value {
	switch x := v.(type) {
	case *Struct:
		n := &Struct{f: make([]*Cell, len(x.f))}
		for i, c := range x.f {
			n.f[i] = e.newCell(e.copyVal(c.v))
		}
		return n
	case *Array:
		n := &Array{e: make([]*Cell, len(x.e))}
		for i, c := range x.e {
			n.e[i] = e.newCell(e.copyVal(c.v))
		}
		return n
	case Tuple:
		n := make(Tuple, len(x))
		for i := range x {
			n[i] = e.copyVal(x[i])
		}
		return n
	case Iface:
		// boxed aggregates are immutable once boxed; share
		return x
	}
	return v
}

// storeInto writes v into cell c preserving the identity of sub-cells of aggregates.
func (e *Exec) storeInto(c *Cell, v Value) {
	switch x := v.(type) {
	case *Struct:
		if cur, ok := c.v.(*Struct); ok && len(cur.f) == len(x.f) {
			for i := range x.f {
				e.storeInto(cur.f[i], x.f[i].v)
			}
			return
		}
		c.v = e.copyVal(x)
	case *Array:
		if cur, ok := c.v.(*Array); ok && len(cur.e) == len(x.e) {
			for i := range x.e {
				e.storeInto(cur.e[i], x.e[i].v)
			}
			return
		}
		c.v = e.copyVal(x)
	default:
		c.v = v
	}
}

func (e *Exec) describe(v Value) string {
	switch x := v.(type) {
	case nil:
		return "nil"
	case *Term:
		return x.String()
	case *Cell:
		if x == nil {
			return "nil-ptr"
		}
		return fmt.Sprintf("&cell%d", x.id)
	case Iface:
		if x.t == nil {
			return "nil-iface"
		}
		return fmt.Sprintf("iface(%s:%s)", x.t.String(), e.describe(x.v))
	case *Struct:
		s := "{"
		for i, c := range x.f {
			if i > 0 {
				s += ","
			}
			s += e.describe(c.v)
		}
		return s + "}"
	case Slice:
		if x.isNil {
			return "nil-slice"
		}
		s := "["
		for i := 0; i < x.n; i++ {
			if i > 0 {
				s += ","
			}
			s += e.describe(x.cells[i].v)
		}
		return s + "]"
	case *ErrObj:
		return fmt.Sprintf("err#%d(%s)", x.id, x.name)
	case *Closure:
		if x == nil {
			return "nil-func"
		}
		if x.fn != nil {
			return "func:" + x.fn.Name()
		}
		return "builtin:" + x.builtin
	case *Union:
		s := "union("
		for i, a := range x.alts {
			if i > 0 {
				s += "|"
			}
			s += e.describe(a.v)
		}
		return s + ")"
	}
	return fmt.Sprintf("%T", v)
}
