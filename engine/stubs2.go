package main

// More environment stubs: typed atomics, time.Timer / AfterFunc, reflect numeric accessors,
// sync.Once, TryLock.

import (
	"go/token"
	"go/types"

	"golang.org/x/tools/go/ssa"
)

func init() {
	// typed atomics: the receiver is a pointer to a struct whose last field holds the value
	for _, ty := range []string{"Int32", "Int64", "Uint32", "Uint64", "Bool"} {
		ty := ty
		stubs["(*sync/atomic."+ty+").Load"] = func(t *Thread, fn *ssa.Function, args []Value, pos token.Pos) Value {
			c := atomicValueCell(t, args[0], pos)
			st := t.e.syncOf(c)
			t.visible(&SyncOp{kind: "atomic.load", obj: c, read: true, tpos: pos, enabled: func() bool { return true }})
			t.acquire(&st.hb)
			return atomicGet(t, c, ty)
		}
		stubs["(*sync/atomic."+ty+").Store"] = func(t *Thread, fn *ssa.Function, args []Value, pos token.Pos) Value {
			c := atomicValueCell(t, args[0], pos)
			st := t.e.syncOf(c)
			t.visible(&SyncOp{kind: "atomic.store", obj: c, tpos: pos, enabled: func() bool { return true }})
			atomicSet(t, c, ty, args[1].(*Term))
			t.release(&st.hb)
			return nil
		}
		stubs["(*sync/atomic."+ty+").Swap"] = func(t *Thread, fn *ssa.Function, args []Value, pos token.Pos) Value {
			c := atomicValueCell(t, args[0], pos)
			st := t.e.syncOf(c)
			t.visible(&SyncOp{kind: "atomic.swap", obj: c, tpos: pos, enabled: func() bool { return true }})
			t.acquire(&st.hb)
			old := atomicGet(t, c, ty)
			atomicSet(t, c, ty, args[1].(*Term))
			t.release(&st.hb)
			return old
		}
		stubs["(*sync/atomic."+ty+").CompareAndSwap"] = func(t *Thread, fn *ssa.Function, args []Value, pos token.Pos) Value {
			c := atomicValueCell(t, args[0], pos)
			st := t.e.syncOf(c)
			t.visible(&SyncOp{kind: "atomic.cas", obj: c, tpos: pos, enabled: func() bool { return true }})
			t.acquire(&st.hb)
			cur := atomicGet(t, c, ty).(*Term)
			eq := t.e.ts.Eq(cur, args[1].(*Term))
			ok := t.truth(eq, "atomic.cas")
			if ok {
				atomicSet(t, c, ty, args[2].(*Term))
			}
			t.release(&st.hb)
			return t.e.ts.Bool(ok)
		}
		if ty != "Bool" {
			stubs["(*sync/atomic."+ty+").Add"] = func(t *Thread, fn *ssa.Function, args []Value, pos token.Pos) Value {
				c := atomicValueCell(t, args[0], pos)
				st := t.e.syncOf(c)
				t.visible(&SyncOp{kind: "atomic.add", obj: c, tpos: pos, enabled: func() bool { return true }})
				t.acquire(&st.hb)
				nv := t.e.ts.BVBin("bvadd", atomicGet(t, c, ty).(*Term), args[1].(*Term))
				atomicSet(t, c, ty, nv)
				t.release(&st.hb)
				return nv
			}
		}
	}
	// atomic.Value: one interface-typed field
	stubs["(*sync/atomic.Value).Load"] = func(t *Thread, fn *ssa.Function, args []Value, pos token.Pos) Value {
		c := atomicValueCell(t, args[0], pos)
		st := t.e.syncOf(c)
		t.visible(&SyncOp{kind: "atomic.load", obj: c, read: true, tpos: pos, enabled: func() bool { return true }})
		t.acquire(&st.hb)
		if v, ok := c.v.(Iface); ok {
			return v
		}
		return Iface{}
	}
	stubs["(*sync/atomic.Value).Store"] = func(t *Thread, fn *ssa.Function, args []Value, pos token.Pos) Value {
		c := atomicValueCell(t, args[0], pos)
		st := t.e.syncOf(c)
		t.visible(&SyncOp{kind: "atomic.store", obj: c, tpos: pos, enabled: func() bool { return true }})
		if v, ok := args[1].(Iface); !ok || v.t == nil {
			t.goPanicf(pos, "sync/atomic: store of nil value into Value", nil)
		}
		c.v = args[1]
		t.release(&st.hb)
		return nil
	}
	stubs["sync/atomic.CompareAndSwapInt32"] = stubAtomicCAS
	stubs["sync/atomic.CompareAndSwapInt64"] = stubAtomicCAS
	stubs["sync/atomic.LoadUint32"] = stubAtomicLoad
	stubs["sync/atomic.StoreUint32"] = stubAtomicStore
	stubs["sync/atomic.AddUint32"] = stubAtomicAdd
	stubs["sync/atomic.LoadUint64"] = stubAtomicLoad
	stubs["sync/atomic.StoreUint64"] = stubAtomicStore
	stubs["sync/atomic.AddUint64"] = stubAtomicAdd

	stubs["(*sync.Mutex).TryLock"] = stubTryLock
	stubs["(*sync.RWMutex).TryLock"] = stubTryLock
	stubs["(*sync.Once).Do"] = stubOnceDo

	stubs["time.NewTimer"] = stubNewTimer
	stubs["(*time.Timer).Reset"] = stubTimerReset
	stubs["(*time.Timer).Stop"] = stubTimerStop
	stubs["time.AfterFunc"] = stubAfterFunc
	stubs["time.Tick"] = nil
	delete(stubs, "time.Tick")

	stubs["(reflect.Value).CanInt"] = func(t *Thread, fn *ssa.Function, args []Value, pos token.Pos) Value {
		r := rv(args)
		k := 0
		if r.valid {
			k = kindOf(r.t)
		}
		return t.e.ts.Bool(k >= 2 && k <= 6)
	}
	stubs["(reflect.Value).CanUint"] = func(t *Thread, fn *ssa.Function, args []Value, pos token.Pos) Value {
		r := rv(args)
		k := 0
		if r.valid {
			k = kindOf(r.t)
		}
		return t.e.ts.Bool(k >= 7 && k <= 12)
	}
	stubs["(reflect.Value).CanFloat"] = func(t *Thread, fn *ssa.Function, args []Value, pos token.Pos) Value {
		r := rv(args)
		k := 0
		if r.valid {
			k = kindOf(r.t)
		}
		return t.e.ts.Bool(k == 13 || k == 14)
	}
	stubs["(reflect.Value).Int"] = func(t *Thread, fn *ssa.Function, args []Value, pos token.Pos) Value {
		r := rv(args)
		if !r.valid || kindOf(r.t) < 2 || kindOf(r.t) > 6 {
			t.goPanicf(pos, "reflect: call of reflect.Value.Int on non-int Value", nil)
		}
		return t.e.ts.SExt(r.v.(*Term), 64)
	}
	stubs["(reflect.Value).Uint"] = func(t *Thread, fn *ssa.Function, args []Value, pos token.Pos) Value {
		r := rv(args)
		if !r.valid || kindOf(r.t) < 7 || kindOf(r.t) > 12 {
			t.goPanicf(pos, "reflect: call of reflect.Value.Uint on non-uint Value", nil)
		}
		return t.e.ts.ZExt(r.v.(*Term), 64)
	}
	stubs["(reflect.Value).Float"] = func(t *Thread, fn *ssa.Function, args []Value, pos token.Pos) Value {
		r := rv(args)
		if !r.valid || (kindOf(r.t) != 13 && kindOf(r.t) != 14) {
			t.goPanicf(pos, "reflect: call of reflect.Value.Float on non-float Value", nil)
		}
		return t.e.ts.FPFromFP(r.v.(*Term), 64)
	}
	stubs["(reflect.Value).Bool"] = func(t *Thread, fn *ssa.Function, args []Value, pos token.Pos) Value {
		r := rv(args)
		if !r.valid || kindOf(r.t) != 1 {
			t.goPanicf(pos, "reflect: call of reflect.Value.Bool on non-bool Value", nil)
		}
		return r.v
	}
	stubs["(reflect.Value).String"] = func(t *Thread, fn *ssa.Function, args []Value, pos token.Pos) Value {
		r := rv(args)
		if r.valid && kindOf(r.t) == 24 {
			return r.v
		}
		return t.e.freshStr("reflectstr")
	}
	stubs["(reflect.Value).IsZero"] = func(t *Thread, fn *ssa.Function, args []Value, pos token.Pos) Value {
		r := rv(args)
		if !r.valid {
			t.goPanicf(pos, "reflect: call of reflect.Value.IsZero on zero Value", nil)
		}
		return t.sameValue(r.v, t.e.zero(r.t))
	}
	stubs["(reflect.Value).NumField"] = func(t *Thread, fn *ssa.Function, args []Value, pos token.Pos) Value {
		r := rv(args)
		if st, ok := r.t.Underlying().(*types.Struct); r.valid && ok {
			return t.e.ts.BV(64, uint64(st.NumFields()))
		}
		t.goPanicf(pos, "reflect: call of reflect.Value.NumField on non-struct Value", nil)
		return nil
	}
	stubs["(reflect.Value).Convert"] = func(t *Thread, fn *ssa.Function, args []Value, pos token.Pos) Value {
		r := rv(args)
		tt, ok := args[1].(Iface)
		if !r.valid || !ok || tt.t == nil {
			t.goPanicf(pos, "reflect: Convert on invalid value / nil type", nil)
		}
		to := tt.v.(*RType).t
		if !types.ConvertibleTo(r.t, to) {
			t.goPanicf(pos, "reflect.Value.Convert: value of type "+r.t.String()+" cannot be converted to type "+to.String(), nil)
		}
		if _, isB := to.Underlying().(*types.Basic); isB {
			if _, isB2 := r.t.Underlying().(*types.Basic); isB2 {
				return &RValue{valid: true, t: to, v: t.convert(r.v, r.t, to, pos)}
			}
		}
		if types.Identical(r.t.Underlying(), to.Underlying()) {
			return &RValue{valid: true, t: to, v: t.e.copyVal(r.v)}
		}
		t.e.unsupported("reflect.Value.Convert " + r.t.String() + " -> " + to.String())
		return nil
	}
	stubs["(reflect.Value).CanConvert"] = func(t *Thread, fn *ssa.Function, args []Value, pos token.Pos) Value {
		r := rv(args)
		tt, ok := args[1].(Iface)
		if !r.valid || !ok || tt.t == nil {
			return t.e.ts.Bool(false)
		}
		return t.e.ts.Bool(types.ConvertibleTo(r.t, tt.v.(*RType).t))
	}
	noop := func(t *Thread, fn *ssa.Function, args []Value, pos token.Pos) Value { return nil }
	for _, n := range []string{"log.Printf", "log.Println", "log.Print", "runtime.Gosched", "runtime.KeepAlive", "runtime.SetFinalizer"} {
		stubs[n] = noop
	}
	bitsLen := func(t *Thread, fn *ssa.Function, args []Value, pos token.Pos) Value {
		x := args[0].(*Term)
		if !x.IsConst {
			t.e.unsupported("math/bits.Len of a symbolic value")
		}
		n := 0
		for v := x.C; v != 0; v >>= 1 {
			n++
		}
		return t.e.ts.BV(64, uint64(n))
	}
	for _, n := range []string{"math/bits.Len", "math/bits.Len64", "math/bits.Len32", "math/bits.Len16", "math/bits.Len8"} {
		stubs[n] = bitsLen
	}
	stubs["runtime.NumGoroutine"] = func(t *Thread, fn *ssa.Function, args []Value, pos token.Pos) Value {
		n := 0
		for _, o := range t.e.threads {
			if !o.done {
				n++
			}
		}
		return t.e.ts.BV(64, uint64(n))
	}
	stubs["reflect.DeepEqual"] = func(t *Thread, fn *ssa.Function, args []Value, pos token.Pos) Value {
		t.e.unsupported("reflect.DeepEqual")
		return nil
	}
}

// atomicValueCell returns the cell holding the value of a typed atomic (field "v").
func atomicValueCell(t *Thread, recv Value, pos token.Pos) *Cell {
	c := t.derefPtr(recv, pos)
	s, ok := c.v.(*Struct)
	if !ok || len(s.f) == 0 {
		t.e.unsupported("typed atomic with unexpected layout")
	}
	// the value field is the last one (preceded by noCopy / align64 markers)
	return s.f[len(s.f)-1]
}

func atomicGet(t *Thread, c *Cell, ty string) Value {
	v := c.v.(*Term)
	if ty == "Bool" {
		// atomic.Bool stores a uint32
		return t.e.ts.Not(t.e.ts.Eq(v, t.e.ts.BV(v.S.W, 0)))
	}
	return v
}

func atomicSet(t *Thread, c *Cell, ty string, nv *Term) {
	if ty == "Bool" {
		cur := c.v.(*Term)
		c.v = t.e.ts.Ite(nv, t.e.ts.BV(cur.S.W, 1), t.e.ts.BV(cur.S.W, 0))
		return
	}
	c.v = nv
}

func stubAtomicCAS(t *Thread, fn *ssa.Function, args []Value, pos token.Pos) Value {
	c := t.derefPtr(args[0], pos)
	st := t.e.syncOf(c)
	t.visible(&SyncOp{kind: "atomic.cas", obj: c, tpos: pos, enabled: func() bool { return true }})
	t.acquire(&st.hb)
	ok := t.truth(t.e.ts.Eq(c.v.(*Term), args[1].(*Term)), "atomic.cas")
	if ok {
		c.v = args[2]
	}
	t.release(&st.hb)
	return t.e.ts.Bool(ok)
}

func stubTryLock(t *Thread, fn *ssa.Function, args []Value, pos token.Pos) Value {
	c, st := t.syncRecv(args, pos)
	t.visible(&SyncOp{kind: "trylock", obj: c, tpos: pos, enabled: func() bool { return true }})
	if st.writer != 0 || st.nread != 0 {
		return t.e.ts.Bool(false)
	}
	st.writer = t.id + 1
	st.sections++
	t.acquire(&st.hb)
	t.acquire(&st.rhb)
	return t.e.ts.Bool(true)
}

type onceState struct {
	done bool
	hb   hbClock
}

func stubOnceDo(t *Thread, fn *ssa.Function, args []Value, pos token.Pos) Value {
	c := t.derefPtr(args[0], pos)
	st := t.e.syncOf(c)
	// Do holds the Once's mutex while f runs: model as lock; run; unlock
	t.visible(&SyncOp{kind: "lock", obj: c, tpos: pos, enabled: func() bool { return st.writer == 0 }})
	st.writer = t.id + 1
	t.acquire(&st.hb)
	if st.counter == 0 {
		st.counter = 1
		t.callClosure(args[1], nil, pos)
	}
	st.writer = 0
	t.release(&st.hb)
	return nil
}

// ---- time.Timer

func (e *Exec) timerOf(c *Cell) *Timer {
	if e.timerObjs == nil {
		e.timerObjs = map[*Cell]*Timer{}
	}
	return e.timerObjs[c]
}

func stubNewTimer(t *Thread, fn *ssa.Function, args []Value, pos token.Pos) Value {
	e := t.e
	tt := fn.Signature.Results().At(0).Type().(*types.Pointer).Elem()
	cell := e.newCell(e.zero(tt))
	tm := e.addTimer(args[0].(*Term))
	tm.ch = e.newChan(1)
	tm.ch.timer = tm
	e.timersCreated++
	// field C is the first field of time.Timer
	cell.v.(*Struct).f[0].v = tm.ch
	if e.timerObjs == nil {
		e.timerObjs = map[*Cell]*Timer{}
	}
	e.timerObjs[cell] = tm
	return cell
}

func stubTimerReset(t *Thread, fn *ssa.Function, args []Value, pos token.Pos) Value {
	e := t.e
	cell := t.derefPtr(args[0], pos)
	old := e.timerOf(cell)
	if old == nil {
		e.unsupported("Reset of a timer not created by time.NewTimer/AfterFunc")
	}
	wasActive := !old.fired
	old.fired = true // disarm
	tm := e.addTimer(args[1].(*Term))
	tm.ch = old.ch
	tm.fn = old.fn
	e.timerObjs[cell] = tm
	e.timersCreated++
	return e.ts.Bool(wasActive)
}

func stubTimerStop(t *Thread, fn *ssa.Function, args []Value, pos token.Pos) Value {
	e := t.e
	cell := t.derefPtr(args[0], pos)
	old := e.timerOf(cell)
	if old == nil {
		return e.ts.Bool(false)
	}
	wasActive := !old.fired
	old.fired = true
	return e.ts.Bool(wasActive)
}

func stubAfterFunc(t *Thread, fn *ssa.Function, args []Value, pos token.Pos) Value {
	e := t.e
	tt := fn.Signature.Results().At(0).Type().(*types.Pointer).Elem()
	cell := e.newCell(e.zero(tt))
	tm := e.addTimer(args[0].(*Term))
	tm.fn = args[1]
	e.timersCreated++
	if e.timerObjs == nil {
		e.timerObjs = map[*Cell]*Timer{}
	}
	e.timerObjs[cell] = tm
	return cell
}

// purePackages: standard-library helper packages whose (generic) Go bodies are interpreted as they are.
var purePackages = map[string]bool{"maps": true, "slices": true, "cmp": true, "context": true, "sort": true}

// prefixStub matches stubs for generic receiver types (atomic.Pointer[T]).
func prefixStub(name string) stubFn {
	const p = "(*sync/atomic.Pointer["
	if len(name) > len(p) && name[:len(p)] == p {
		i := lastIndex(name, ").")
		if i < 0 {
			return nil
		}
		m := name[i+2:]
		if j := indexByte(m, '['); j >= 0 {
			m = m[:j]
		}
		switch m {
		case "Load":
			return func(t *Thread, fn *ssa.Function, args []Value, pos token.Pos) Value {
				c := atomicValueCell(t, args[0], pos)
				st := t.e.syncOf(c)
				t.visible(&SyncOp{kind: "atomic.load", obj: c, read: true, tpos: pos, enabled: func() bool { return true }})
				t.acquire(&st.hb)
				if c.v == nil {
					return (*Cell)(nil)
				}
				return c.v
			}
		case "Store":
			return func(t *Thread, fn *ssa.Function, args []Value, pos token.Pos) Value {
				c := atomicValueCell(t, args[0], pos)
				st := t.e.syncOf(c)
				t.visible(&SyncOp{kind: "atomic.store", obj: c, tpos: pos, enabled: func() bool { return true }})
				c.v = args[1]
				t.release(&st.hb)
				return nil
			}
		case "Swap":
			return func(t *Thread, fn *ssa.Function, args []Value, pos token.Pos) Value {
				c := atomicValueCell(t, args[0], pos)
				st := t.e.syncOf(c)
				t.visible(&SyncOp{kind: "atomic.swap", obj: c, tpos: pos, enabled: func() bool { return true }})
				t.acquire(&st.hb)
				old := c.v
				if old == nil {
					old = (*Cell)(nil)
				}
				c.v = args[1]
				t.release(&st.hb)
				return old
			}
		case "CompareAndSwap":
			return func(t *Thread, fn *ssa.Function, args []Value, pos token.Pos) Value {
				c := atomicValueCell(t, args[0], pos)
				st := t.e.syncOf(c)
				t.visible(&SyncOp{kind: "atomic.cas", obj: c, tpos: pos, enabled: func() bool { return true }})
				t.acquire(&st.hb)
				cur, _ := c.v.(*Cell)
				old, _ := args[1].(*Cell)
				ok := cur == old
				if ok {
					c.v = args[2]
				}
				t.release(&st.hb)
				return t.e.ts.Bool(ok)
			}
		}
	}
	return nil
}

func lastIndex(s, sub string) int {
	for i := len(s) - len(sub); i >= 0; i-- {
		if s[i:i+len(sub)] == sub {
			return i
		}
	}
	return -1
}

func indexByte(s string, b byte) int {
	for i := 0; i < len(s); i++ {
		if s[i] == b {
			return i
		}
	}
	return -1
}

// ---- time.Time on the virtual clock. A Time is its real three-field struct; times made by
// time.Now carry the monotonic flag and the virtual instant (ns) in ext, the zero Time is all zeros.

const timeHasMonotonic = uint64(1) << 63

func (e *Exec) mkTime(fnResult types.Type, ns *Term) Value {
	st := e.zero(fnResult).(*Struct)
	st.f[0].v = e.ts.BV(64, timeHasMonotonic)
	st.f[1].v = ns
	return st
}

func timeNS(t *Thread, v Value, pos token.Pos) *Term {
	st, ok := v.(*Struct)
	if !ok || len(st.f) < 2 {
		t.e.unsupported("time.Time with unexpected layout")
	}
	return st.f[1].v.(*Term)
}

func timeIsZero(t *Thread, v Value) *Term {
	st := v.(*Struct)
	ts := t.e.ts
	return ts.And(ts.Eq(st.f[0].v.(*Term), ts.BV(64, 0)), ts.Eq(st.f[1].v.(*Term), ts.BV(64, 0)))
}

func init() {
	stubs["time.Now"] = func(t *Thread, fn *ssa.Function, args []Value, pos token.Pos) Value {
		return t.e.mkTime(fn.Signature.Results().At(0).Type(), t.e.now)
	}
	stubs["time.Until"] = func(t *Thread, fn *ssa.Function, args []Value, pos token.Pos) Value {
		return t.e.ts.BVBin("bvsub", timeNS(t, args[0], pos), t.e.now)
	}
	stubs["time.Since"] = func(t *Thread, fn *ssa.Function, args []Value, pos token.Pos) Value {
		return t.e.ts.BVBin("bvsub", t.e.now, timeNS(t, args[0], pos))
	}
	stubs["(time.Time).Sub"] = func(t *Thread, fn *ssa.Function, args []Value, pos token.Pos) Value {
		return t.e.ts.BVBin("bvsub", timeNS(t, args[0], pos), timeNS(t, args[1], pos))
	}
	stubs["(time.Time).Add"] = func(t *Thread, fn *ssa.Function, args []Value, pos token.Pos) Value {
		st := t.e.copyVal(args[0]).(*Struct)
		st.f[0].v = t.e.ts.BV(64, timeHasMonotonic)
		st.f[1].v = t.e.ts.BVBin("bvadd", st.f[1].v.(*Term), args[1].(*Term))
		return st
	}
	stubs["(time.Time).Before"] = func(t *Thread, fn *ssa.Function, args []Value, pos token.Pos) Value {
		return t.e.ts.BVCmp("bvslt", timeNS(t, args[0], pos), timeNS(t, args[1], pos))
	}
	stubs["(time.Time).After"] = func(t *Thread, fn *ssa.Function, args []Value, pos token.Pos) Value {
		return t.e.ts.BVCmp("bvslt", timeNS(t, args[1], pos), timeNS(t, args[0], pos))
	}
	stubs["(time.Time).Equal"] = func(t *Thread, fn *ssa.Function, args []Value, pos token.Pos) Value {
		return t.e.ts.Eq(timeNS(t, args[0], pos), timeNS(t, args[1], pos))
	}
	stubs["(time.Time).IsZero"] = func(t *Thread, fn *ssa.Function, args []Value, pos token.Pos) Value {
		return timeIsZero(t, args[0])
	}
	stubs["(time.Time).String"] = func(t *Thread, fn *ssa.Function, args []Value, pos token.Pos) Value {
		return t.e.freshStr("timestr")
	}
	stubs["(time.Duration).String"] = func(t *Thread, fn *ssa.Function, args []Value, pos token.Pos) Value {
		return t.e.freshStr("durstr")
	}
}
