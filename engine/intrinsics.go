package main

// Harness intrinsics (functions of package flyt named v…, declared in zz_verif_rt_engine.go).

import (
	"fmt"
	"go/token"
	"go/types"
	"strings"

	"golang.org/x/tools/go/ssa"
)

var intrinsics map[string]stubFn

func init() {
	intrinsics = map[string]stubFn{
		"vAssume":     inAssume,
		"vAssert":     inAssert,
		"vCover":      inCover,
		"vUnwind":     inUnwind,
		"vLog":        inLog,
		"vLogS":       inLogS,
		"vPanics":     inPanics,
		"vSame":       inSame,
		"vSameDeep":   inSameDeep,
		"vChoice":     inChoice,
		"vConcrete":   inConcrete,
		"vParam":      inParam,
		"vSig":        inSig,
		"vYield":      inYield,
		"vMon":        inMon,
		"vMonC":       inMonC,
		"vBlockUntil": inBlockUntil,
		"vBlockUntilAny": inBlockUntil,
		"vQuiesce":    inQuiesce,
		"vThreadID":   inThreadID,
		"vThreadIdle": inThreadIdle,
		"vNow":        inNow,
		"vAfterFunc":  inAfterFunc,
		"vGuardedBy":  inGuardedBy,
		"vTimers":     inTimers,
		"vFail":       inFail,
		"vSections":   inSections,
		"vPick":       inPick,
		"vLockFree": func(t *Thread, fn *ssa.Function, args []Value, pos token.Pos) Value {
			st := t.e.syncOf(t.derefPtr(args[0], pos))
			return t.e.ts.Bool(st.writer == 0 && st.nread == 0)
		},
		"vThreadsCreated": func(t *Thread, fn *ssa.Function, args []Value, pos token.Pos) Value {
			return t.e.ts.BV(64, uint64(len(t.e.threads)-1))
		},
		"vRaceChecked": inRaceChecked,
	}
}

func sanitize(s string) string {
	var b strings.Builder
	for _, r := range s {
		if r >= 'a' && r <= 'z' || r >= 'A' && r <= 'Z' || r >= '0' && r <= '9' || r == '_' {
			b.WriteRune(r)
		} else {
			b.WriteByte('_')
		}
	}
	return b.String()
}

func (t *Thread) constStr(v Value, what string) string {
	s := v.(*Term)
	if !s.IsConst {
		t.e.unsupported(what + " must be a constant string")
	}
	return t.e.eng.strOf(uint32(s.C))
}

// nondet creates (or, in concrete re-execution, looks up) the value for tape key `key`.
func (e *Exec) nondet(key string, rt types.Type) Value {
	name := "n_" + sanitize(key)
	var s Sort
	b, ok := rt.Underlying().(*types.Basic)
	if !ok {
		e.unsupported("vNondet of non-basic type " + rt.String())
	}
	switch {
	case b.Info()&types.IsBoolean != 0:
		s = BoolSort
	case b.Info()&types.IsInteger != 0:
		s = Sort{SBV, intWidth(b)}
	case b.Info()&types.IsFloat != 0:
		if b.Kind() == types.Float32 {
			s = Sort{SFP, 32}
		} else {
			s = Sort{SFP, 64}
		}
	case b.Info()&types.IsString != 0:
		s = StrSort
	default:
		e.unsupported("vNondet of type " + rt.String())
	}
	if e.concrete != nil {
		bits, ok := e.concrete[name]
		if !ok {
			bits = 0
		}
		e.nondetKeys = append(e.nondetKeys, nondetKey{key, name, s, b.Info()&types.IsString != 0})
		switch s.K {
		case SBool:
			return e.ts.Bool(bits != 0)
		case SBV:
			return e.ts.BV(s.W, bits)
		default:
			return e.ts.FPBits(s.W, bits)
		}
	}
	v := e.ts.Var(name, s)
	e.nondets = append(e.nondets, v)
	e.nondetLabels = append(e.nondetLabels, key)
	e.nondetKeys = append(e.nondetKeys, nondetKey{key, name, s, b.Info()&types.IsString != 0})
	return v
}

type nondetKey struct {
	key, name string
	s         Sort
	isStr     bool
}

func (e *Exec) seqKey(label string) string {
	n := e.nondetSeq[label]
	e.nondetSeq[label] = n + 1
	return fmt.Sprintf("%s#%d", label, n)
}

// vNondet[T](label) and vNondetK[T](label, k) are generic; they are intercepted by origin name.
func (t *Thread) tryGenericIntrinsic(fn *ssa.Function, args []Value, pos token.Pos) (Value, bool) {
	o := fn.Origin()
	if o == nil || fnPkg(fn) != t.e.eng.pkg {
		return nil, false
	}
	rt := fn.Signature.Results()
	switch o.Name() {
	case "vNondet":
		label := t.constStr(args[0], "vNondet label")
		return t.e.nondet(t.e.seqKey(label), rt.At(0).Type()), true
	case "vNondetK":
		label := t.constStr(args[0], "vNondetK label")
		k := t.concInt(args[1].(*Term), "vNondetK key", pos)
		return t.e.nondet(t.e.seqKey(fmt.Sprintf("%s@%d", label, k)), rt.At(0).Type()), true
	}
	return nil, false
}

func inAssume(t *Thread, fn *ssa.Function, args []Value, pos token.Pos) Value {
	e := t.e
	c := args[0].(*Term)
	if c.IsTrue() {
		return nil
	}
	if c.IsFalse() {
		panic(pathAbort{"infeasible", "vAssume"})
	}
	if e.pos < len(e.trail) {
		// still on the recorded prefix: this assumption was part of the path condition whose
		// feasibility was established when the prefix was first explored
		e.assume(c)
		return nil
	}
	e.curKind = "vAssume"
	ok, m := e.feasibleM(c)
	if !ok {
		panic(pathAbort{"infeasible", "vAssume"})
	}
	e.assume(c)
	if m != nil {
		e.model = m
	}
	return nil
}

func inAssert(t *Thread, fn *ssa.Function, args []Value, pos token.Pos) Value {
	e := t.e
	c := args[0].(*Term)
	label := t.constStr(args[1], "vAssert label")
	e.asserts[label]++
	defer func() { e.sigParts = e.sigParts[:0] }()
	if c.IsTrue() {
		e.assertFolded++
		return nil
	}
	nc := e.ts.Not(c)
	if e.pos < len(e.trail) && e.concrete == nil {
		// before the divergence point the parent path evaluated this very assertion under the
		// same path condition; it is decided (and reported) there
		e.assertInherited++
		if !c.IsConst {
			e.assume(c)
		} else if c.IsFalse() {
			panic(pathAbort{"asserted", "assertion " + label + " fails (decided on the parent path)"})
		}
		return nil
	}
	if e.concrete != nil {
		e.violation("assert", label, "assertion failed (concrete) at "+t.posOf(pos), e.concrete)
		return nil
	}
	e.assertQueries++
	var r SatResult
	var m map[string]uint64
	var why string
	if e.holdsInModel(nc) {
		r, m = Sat, e.fullModel(e.model)
		e.cacheHits++
	} else {
		e.queries++
		e.eng.noteFn("query:assert", 1)
		r, m, why = e.ps.Check(e.pc, nc, e.modelVars(nc))
		if r == Sat {
			if m == nil {
				m = map[string]uint64{}
			}
			m = e.fullModel(m)
		}
	}
	if r == Sat && len(e.ts.rangeCons) > 0 {
		// prefer a counterexample in which every float->int conversion is specified (replayable)
		pref := nc
		for _, rc := range e.ts.rangeCons {
			pref = e.ts.And(pref, rc)
		}
		e.queries++
		r2, m2, _ := e.ps.Check(e.pc, pref, e.modelVars(pref))
		if r2 == Sat && m2 != nil {
			m = e.fullModel(m2)
		} else if r2 == Unsat {
			// the assertion can only fail when a float->int conversion is out of range, where Go's
			// result is implementation-dependent: outside the claim (stated in the evidence)
			e.rangeExcluded++
			r = Unsat
		}
	}
	if e.solver2 != nil && !nc.IsConst && (r == Sat || (r == Unsat && e.crossBudget != nil && *e.crossBudget > 0)) {
		if r == Unsat {
			*e.crossBudget--
		}
		e.crossCheck(nc, r)
	}
	switch r {
	case Unknown:
		e.unknowns = append(e.unknowns, "assert "+label+": "+why)
	case Sat:
		if m == nil {
			m = map[string]uint64{}
		}
		e.violation("assert", label, "assertion can fail at "+t.posOf(pos), m)
		if c.IsFalse() || !e.feasible(c) {
			panic(pathAbort{"asserted", "assertion " + label + " fails on every continuation"})
		}
	case Unsat:
		e.assertUnsat++
	}
	if !c.IsConst {
		e.assume(c)
	}
	return nil
}

func inCover(t *Thread, fn *ssa.Function, args []Value, pos token.Pos) Value {
	t.e.covers[t.constStr(args[0], "vCover label")] = true
	return nil
}

func inUnwind(t *Thread, fn *ssa.Function, args []Value, pos token.Pos) Value {
	t.e.unwind = t.concInt(args[0].(*Term), "vUnwind", pos)
	return nil
}

func inLog(t *Thread, fn *ssa.Function, args []Value, pos token.Pos) Value {
	e := t.e
	tag := t.constStr(args[0], "vLog tag")
	v := args[1].(*Term)
	e.logTerms = append(e.logTerms, logTerm{tag, v, false})
	if v.IsConst {
		e.log = append(e.log, LogEntry{tag, fmt.Sprint(sext(v.C, v.S.W))})
	} else {
		e.log = append(e.log, LogEntry{tag, v.String()})
	}
	return nil
}

type logTerm struct {
	tag   string
	v     *Term
	isStr bool
}

func inLogS(t *Thread, fn *ssa.Function, args []Value, pos token.Pos) Value {
	e := t.e
	tag := t.constStr(args[0], "vLogS tag")
	v := args[1].(*Term)
	e.logTerms = append(e.logTerms, logTerm{tag, v, true})
	if v.IsConst {
		e.log = append(e.log, LogEntry{tag, e.eng.strOf(uint32(v.C))})
	} else {
		e.log = append(e.log, LogEntry{tag, v.String()})
	}
	return nil
}

func inPanics(t *Thread, fn *ssa.Function, args []Value, pos token.Pos) (res Value) {
	e := t.e
	savedFr, savedDepth := t.fr, t.depth
	defer func() {
		if r := recover(); r != nil {
			if gp, ok := r.(*goPanic); ok {
				t.fr, t.depth = savedFr, savedDepth
				e.lastPanic = gp
				res = e.ts.Bool(true)
				return
			}
			panic(r)
		}
	}()
	t.callClosure(args[0], nil, pos)
	return e.ts.Bool(false)
}

// sameValue: identity for reference-like values, == for scalars (NaN is the same as NaN), field-wise for
// aggregates; never panics.
func (t *Thread) sameValue(a, b Value) *Term {
	e := t.e
	ts := e.ts
	if ua, ok := a.(*Union); ok {
		if ub, ok := b.(*Union); ok && ua == ub {
			return ts.Bool(true)
		}
	}
	a, b = t.conc(a), t.conc(b)
	switch x := a.(type) {
	case nil:
		return ts.Bool(isNilValue(b))
	case *Term:
		y, ok := b.(*Term)
		if !ok || y.S != x.S {
			return ts.Bool(false)
		}
		if x.S.K == SFP {
			return ts.Or(ts.FPCmp("fp.eq", x, y), ts.And(ts.FPIsNaN(x), ts.FPIsNaN(y)))
		}
		return ts.Eq(x, y)
	case Iface:
		y, ok := b.(Iface)
		if !ok {
			return ts.Bool(false)
		}
		if x.t == nil || y.t == nil {
			return ts.Bool(x.t == nil && y.t == nil)
		}
		if !types.Identical(x.t, y.t) {
			return ts.Bool(false)
		}
		return t.sameValue(x.v, y.v)
	case *Cell:
		y, ok := b.(*Cell)
		return ts.Bool(ok && x == y)
	case *MapObj:
		y, ok := b.(*MapObj)
		if ok && t.deepSame {
			return t.sameMapContent(x, y)
		}
		return ts.Bool(ok && x == y)
	case *ChanObj:
		y, ok := b.(*ChanObj)
		return ts.Bool(ok && x == y)
	case *Closure:
		y, ok := b.(*Closure)
		if !ok {
			return ts.Bool(false)
		}
		if x == nil || y == nil {
			return ts.Bool(x == nil && y == nil)
		}
		if x.fn != y.fn || len(x.env) != len(y.env) {
			return ts.Bool(false)
		}
		r := ts.Bool(true)
		for i := range x.env {
			r = ts.And(r, t.sameValue(x.env[i], y.env[i]))
		}
		return r
	case Slice:
		y, ok := b.(Slice)
		if !ok {
			return ts.Bool(false)
		}
		if x.isNil || y.isNil {
			return ts.Bool(x.isNil && y.isNil)
		}
		if x.n != y.n {
			return ts.Bool(false)
		}
		if x.n == 0 {
			return ts.Bool(true)
		}
		if t.deepSame {
			r := ts.Bool(true)
			for i := 0; i < x.n; i++ {
				r = ts.And(r, t.sameValue(x.cells[i].v, y.cells[i].v))
			}
			return r
		}
		return ts.Bool(x.cells[0] == y.cells[0])
	case *Struct:
		y, ok := b.(*Struct)
		if !ok || len(x.f) != len(y.f) {
			return ts.Bool(false)
		}
		r := ts.Bool(true)
		for i := range x.f {
			r = ts.And(r, t.sameValue(x.f[i].v, y.f[i].v))
		}
		return r
	case *Array:
		y, ok := b.(*Array)
		if !ok || len(x.e) != len(y.e) {
			return ts.Bool(false)
		}
		r := ts.Bool(true)
		for i := range x.e {
			r = ts.And(r, t.sameValue(x.e[i].v, y.e[i].v))
		}
		return r
	case *ErrObj:
		y, ok := b.(*ErrObj)
		return ts.Bool(ok && x == y)
	case *Opaque:
		y, ok := b.(*Opaque)
		return ts.Bool(ok && x == y)
	}
	e.unsupported(fmt.Sprintf("vSame on %T", a))
	return nil
}

func inSame(t *Thread, fn *ssa.Function, args []Value, pos token.Pos) Value {
	return t.sameValue(args[0], args[1])
}

func inSameDeep(t *Thread, fn *ssa.Function, args []Value, pos token.Pos) Value {
	t.deepSame = true
	defer func() { t.deepSame = false }()
	return t.sameValue(args[0], args[1])
}

// sameMapContent: both nil or both non-nil, same size, every entry of x has an equal key in y with
// a same-deep value (keys may be symbolic: a formula)
func (t *Thread) sameMapContent(x, y *MapObj) *Term {
	ts := t.e.ts
	if x == nil || y == nil {
		return ts.Bool(x == nil && y == nil)
	}
	if len(x.ents) != len(y.ents) {
		return ts.Bool(false)
	}
	r := ts.Bool(true)
	for _, ex := range x.ents {
		any := ts.Bool(false)
		for _, ey := range y.ents {
			any = ts.Or(any, ts.And(t.sameValue(ex.k, ey.k), t.sameValue(ex.c.v, ey.c.v)))
		}
		r = ts.And(r, any)
	}
	return r
}

func inChoice(t *Thread, fn *ssa.Function, args []Value, pos token.Pos) Value {
	e := t.e
	label := t.constStr(args[0], "vChoice label")
	n := t.concInt(args[1].(*Term), "vChoice n", pos)
	key := e.seqKey(label)
	v := e.nondet(key, types.Typ[types.Int]).(*Term)
	if v.IsConst {
		return v
	}
	gs := make([]*Term, n)
	for i := 0; i < n; i++ {
		gs[i] = e.ts.Eq(v, e.ts.BV(64, uint64(i)))
	}
	i := e.choose("choice:"+label, gs)
	return e.ts.BV(64, uint64(i))
}

func inConcrete(t *Thread, fn *ssa.Function, args []Value, pos token.Pos) Value {
	x := args[0].(*Term)
	return t.e.ts.BV(x.S.W, uint64(int64(t.concInt(x, "vConcrete", pos))))
}

func inParam(t *Thread, fn *ssa.Function, args []Value, pos token.Pos) Value {
	e := t.e
	name := t.constStr(args[0], "vParam name")
	def := t.concInt(args[1].(*Term), "vParam default", pos)
	if v, ok := e.params[name]; ok {
		def = v
	}
	e.paramsUsed[name] = def
	return e.ts.BV(64, uint64(int64(def)))
}

func inSig(t *Thread, fn *ssa.Function, args []Value, pos token.Pos) Value {
	e := t.e
	name := t.constStr(args[0], "vSig name")
	v := args[1].(*Term)
	val := v.String()
	if !v.IsConst {
		val = "sym"
	}
	e.sigParts = append(e.sigParts, name+"="+val)
	return nil
}

func inYield(t *Thread, fn *ssa.Function, args []Value, pos token.Pos) Value {
	t.visible(&SyncOp{kind: "yield", obj: t.e.yieldObj, tpos: pos, enabled: func() bool { return true }})
	return nil
}

// vMon: a visible operation on the global harness monitor; all vMon transitions are mutually
// dependent, and for harness-owned cells it behaves as acquire+release of a monitor lock.
func inMonC(t *Thread, fn *ssa.Function, args []Value, pos token.Pos) Value {
	class := t.concInt(args[0].(*Term), "vMonC class", pos)
	return monBody(t, class, args[1], pos)
}

func inMon(t *Thread, fn *ssa.Function, args []Value, pos token.Pos) Value {
	return monBody(t, 0, args[0], pos)
}

func monBody(t *Thread, class int, body Value, pos token.Pos) Value {
	e := t.e
	t.visible(&SyncOp{kind: "mon", obj: e.monObj, class: class, tpos: pos, enabled: func() bool { return true }})
	t.vcAll = vcJoin(t.vcAll, e.monClock) // acquire the monitor
	for len(t.vcAll) <= t.id {
		t.vcAll = append(t.vcAll, 0)
	}
	if t.vcAll[t.id] == 0 {
		t.vcAll[t.id] = 1
	}
	// the monitor body runs atomically inside this transition (it must not contain visible operations)
	t.inMon = true
	t.callClosure(body, nil, pos)
	t.inMon = false
	e.monClock = vcJoin(e.monClock, t.vcAll) // release
	t.vcAll[t.id]++
	return nil
}

func inBlockUntil(t *Thread, fn *ssa.Function, args []Value, pos token.Pos) Value {
	e := t.e
	f := args[0]
	en := func() bool {
		r := e.evalPure(f)
		b, ok := r.(*Term)
		if !ok || !b.IsConst {
			e.abortFromSched(pathAbort{"unsupported", "vBlockUntil condition is symbolic"})
			return false
		}
		return b.C == 1
	}
	e.multi = true
	// the condition reads harness monitor state only: the operation depends on monitor steps
	// (vMon/vMonC), not on the framework's own synchronisation
	var obj interface{} = e.monObj
	if fn.Name() == "vBlockUntilAny" {
		obj = nil // condition looks at scheduler state (vThreadIdle): dependent on everything
	}
	t.visible(&SyncOp{kind: "blockuntil", obj: obj, tpos: pos, enabled: en})
	// the condition was established by monitor steps: everything before them is visible now
	t.vcAll = vcJoin(t.vcAll, e.monClock)
	return nil
}

// evalPure runs a closure without visible operations on a scratch thread context.
func (e *Exec) evalPure(f Value) (res Value) {
	st := &Thread{id: -1, e: e}
	if e.cur != nil {
		st.vc, st.vcAll = e.cur.vc, e.cur.vcAll
	}
	saveMulti := e.multi
	e.multi = false
	e.inPure = true
	defer func() {
		e.multi = saveMulti
		e.inPure = false
		if r := recover(); r != nil {
			if pa, ok := r.(pathAbort); ok {
				e.abortFromSched(pa)
				res = e.ts.Bool(false)
				return
			}
			panic(r)
		}
	}()
	return st.callClosure(f, nil, token.NoPos)
}

func (e *Exec) abortFromSched(pa pathAbort) {
	if e.abort == nil {
		e.abort = &pa
	}
}

func inQuiesce(t *Thread, fn *ssa.Function, args []Value, pos token.Pos) Value {
	e := t.e
	en := func() bool {
		for _, o := range e.threads {
			if o != t && !o.done && o.op != nil && o.op.enabled() {
				return false
			}
		}
		for _, tm := range e.timers {
			if !tm.fired {
				return false
			}
		}
		return true
	}
	t.visible(&SyncOp{kind: "quiesce", obj: nil, tpos: pos, enabled: en})
	live := 0
	for _, o := range e.threads {
		if o != t && !o.done {
			live++
		}
	}
	return e.ts.BV(64, uint64(live))
}

func inThreadID(t *Thread, fn *ssa.Function, args []Value, pos token.Pos) Value {
	id := t.id
	if id < 0 && t.e.cur != nil {
		id = t.e.cur.id
	}
	return t.e.ts.BV(64, uint64(int64(id)))
}

// vThreadIdle(id): thread id is finished, or parked on a channel receive/select with nothing ready.
func inThreadIdle(t *Thread, fn *ssa.Function, args []Value, pos token.Pos) Value {
	e := t.e
	id := t.concInt(args[0].(*Term), "vThreadIdle", pos)
	if id < 0 || id >= len(e.threads) {
		return e.ts.Bool(true)
	}
	o := e.threads[id]
	if o.done {
		return e.ts.Bool(true)
	}
	if o.op != nil && (o.op.kind == "select" || o.op.kind == "recv") {
		return e.ts.Bool(true)
	}
	return e.ts.Bool(false)
}

func inNow(t *Thread, fn *ssa.Function, args []Value, pos token.Pos) Value { return t.e.now }

func inAfterFunc(t *Thread, fn *ssa.Function, args []Value, pos token.Pos) Value {
	e := t.e
	tm := e.addTimer(args[0].(*Term))
	tm.fn = args[1]
	return nil
}

func inGuardedBy(t *Thread, fn *ssa.Function, args []Value, pos token.Pos) Value {
	mu := t.derefPtr(args[0], pos)
	data := t.derefPtr(args[1], pos)
	g := &guardSpec{mu: mu}
	data.guard = g
	t.e.guards = append(t.e.guards, guardedCell{data, g})
	if m, ok := data.v.(*MapObj); ok && m != nil {
		m.cell.guard = g
	}
	return nil
}

type guardedCell struct {
	c *Cell
	g *guardSpec
}

// vTimers returns the number of timers (time.After / time.Sleep) created so far.
func inTimers(t *Thread, fn *ssa.Function, args []Value, pos token.Pos) Value {
	return t.e.ts.BV(64, uint64(t.e.timersCreated))
}

// vSections(&mu) returns how many critical sections (Lock/RLock acquisitions) mu has seen.
func inSections(t *Thread, fn *ssa.Function, args []Value, pos token.Pos) Value {
	c := t.derefPtr(args[0], pos)
	return t.e.ts.BV(64, uint64(t.e.syncOf(c).sections))
}

func inFail(t *Thread, fn *ssa.Function, args []Value, pos token.Pos) Value {
	panic(pathAbort{"fatal", "vFail: " + t.constStr(args[0], "vFail msg") + " at " + t.posOf(pos)})
}

// vPick(idx, opts...) returns opts[idx]; with a symbolic idx the result is a Union that is only
// forked when (and if) the program looks into it.
func inPick(t *Thread, fn *ssa.Function, args []Value, pos token.Pos) Value {
	e := t.e
	idx := args[0].(*Term)
	opts := variadicArgs(args[1])
	if idx.IsConst {
		i := int(int64(idx.C))
		if i < 0 || i >= len(opts) {
			t.goPanicf(pos, "vPick index out of range", nil)
		}
		return opts[i]
	}
	u := &Union{}
	for k, o := range opts {
		u.alts = append(u.alts, UnionAlt{g: e.ts.Eq(idx, e.ts.BV(64, uint64(k))), v: o})
	}
	return u
}

// vRaceChecked(p) marks harness-allocated memory (a pointer's target or a slice's elements) as
// application data: accesses are race-checked against flyt's own happens-before, not the monitor's.
func inRaceChecked(t *Thread, fn *ssa.Function, args []Value, pos token.Pos) Value {
	v := args[0].(Iface)
	var mark func(c *Cell)
	mark = func(c *Cell) {
		c.harness = false
		switch x := c.v.(type) {
		case *Struct:
			for _, f := range x.f {
				mark(f)
			}
		case *Array:
			for _, f := range x.e {
				mark(f)
			}
		}
	}
	switch x := v.v.(type) {
	case *Cell:
		if x != nil {
			mark(x)
		}
	case Slice:
		for _, c := range x.cells {
			mark(c)
		}
	case *MapObj:
		if x != nil {
			x.cell.harness = false
		}
	}
	return nil
}
