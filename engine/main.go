package main

import (
	"encoding/json"
	"runtime/pprof"
	"flag"
	"fmt"
	"os"
	"path/filepath"
	"sort"
	"strconv"
	"strings"
	"time"

	"golang.org/x/tools/go/packages"
	"golang.org/x/tools/go/ssa"
	"golang.org/x/tools/go/ssa/ssautil"
)

var (
	verifDir = envOr("VERIF_DIR", "/verif")
	repoDir  = envOr("VERIF_REPO", "/repo")
)

func envOr(k, d string) string {
	if v := os.Getenv(k); v != "" {
		return v
	}
	return d
}

// harnessFileOf finds the harness source file that defines function fn.
func harnessFileOf(fn string) string {
	hs, _ := filepath.Glob(filepath.Join(verifDir, "harness", "*.go"))
	for _, h := range hs {
		b, err := os.ReadFile(h)
		if err == nil && strings.Contains(string(b), "func "+fn+"(") {
			return h
		}
	}
	return ""
}

// overlayFiles lists the overlay files (virtual name in repo -> real path). With a nil `only`
// every harness file is included; otherwise the shared libraries plus the listed files.
func overlayFiles(native bool, only map[string]bool) map[string]string {
	m := map[string]string{}
	hs, _ := filepath.Glob(filepath.Join(verifDir, "harness", "*.go"))
	for _, h := range hs {
		base := filepath.Base(h)
		if only != nil && !only[h] && base != "lib.go" && base != "batchlib.go" {
			continue
		}
		m[filepath.Join(repoDir, "zz_verif_h_"+base)] = h
	}
	if native {
		m[filepath.Join(repoDir, "zz_verif_rt_native.go")] = filepath.Join(verifDir, "rt", "rt_native.go")
		m[filepath.Join(repoDir, "zz_verif_replay_test.go")] = filepath.Join(verifDir, "rt", "replay_test.go")
	} else {
		m[filepath.Join(repoDir, "zz_verif_rt_engine.go")] = filepath.Join(verifDir, "rt", "rt_engine.go")
	}
	return m
}

func loadEngine(cfg Config) (*Engine, error) { return loadEngineFiles(cfg, nil) }

func loadEngineFiles(cfg Config, only map[string]bool) (*Engine, error) {
	ov := map[string][]byte{}
	for virt, real := range overlayFiles(false, only) {
		b, err := os.ReadFile(real)
		if err != nil {
			return nil, err
		}
		ov[virt] = b
	}
	pcfg := &packages.Config{Mode: packages.LoadAllSyntax, Dir: repoDir, BuildFlags: []string{"-tags=verif"}, Overlay: ov,
		Env: append(os.Environ(), "GOFLAGS=-mod=mod", "GOPROXY=off", "GOSUMDB=off", "GOTOOLCHAIN=local")}
	pkgs, err := packages.Load(pcfg, ".")
	if err != nil {
		return nil, err
	}
	if len(pkgs) != 1 {
		return nil, fmt.Errorf("expected one package, got %d", len(pkgs))
	}
	if len(pkgs[0].Errors) > 0 {
		var sb strings.Builder
		for _, e := range pkgs[0].Errors {
			sb.WriteString(e.Error() + "\n")
		}
		return nil, fmt.Errorf("package errors:\n%s", sb.String())
	}
	prog, spkgs := ssautil.AllPackages(pkgs, ssa.InstantiateGenerics)
	prog.Build()
	g := &Engine{prog: prog, pkg: spkgs[0], cfg: cfg, strIdx: map[string]uint32{}, fnCount: map[string]int{}, only: only}
	g.intern("")
	return g, nil
}

func defaultConfig() Config {
	return Config{StepBudget: 3_000_000, Unwind: 12, MaxConc: 24, QueryTimeout: 20000}
}

func main() {
	if len(os.Args) < 2 {
		fmt.Fprintln(os.Stderr, "usage: flytsym run|check|replay ...")
		os.Exit(2)
	}
	switch os.Args[1] {
	case "run":
		cmdRun(os.Args[2:])
	case "check":
		os.Exit(cmdCheck(os.Args[2:]))
	case "trail":
		cmdTrail(os.Args[2:])
	default:
		fmt.Fprintln(os.Stderr, "unknown command")
		os.Exit(2)
	}
}

type paramFlag map[string]int

func (p paramFlag) String() string { return fmt.Sprint(map[string]int(p)) }
func (p paramFlag) Set(s string) error {
	kv := strings.SplitN(s, "=", 2)
	if len(kv) != 2 {
		return fmt.Errorf("want k=v")
	}
	v, err := strconv.Atoi(kv[1])
	if err != nil {
		return err
	}
	p[kv[0]] = v
	return nil
}

func cmdRun(args []string) {
	fs := flag.NewFlagSet("run", flag.ExitOnError)
	h := fs.String("harness", "", "harness function")
	workers := fs.Int("workers", 8, "workers")
	tmo := fs.Int("timeout", 120, "seconds")
	sym := fs.Bool("symmetry", false, "idle-worker symmetry reduction")
	nosleep := fs.Bool("nosleep", false, "disable sleep sets")
	verbose := fs.Bool("v", false, "verbose")
	prof := fs.String("cpuprofile", "", "write a CPU profile")
	params := paramFlag{}
	fs.Var(params, "p", "param k=v")
	fs.Parse(args)
	if *prof != "" {
		f, _ := os.Create(*prof)
		pprof.StartCPUProfile(f)
		defer pprof.StopCPUProfile()
	}
	cfg := defaultConfig()
	cfg.Symmetry = *sym
	cfg.NoSleepSets = *nosleep
	t0 := time.Now()
	g, err := loadEngine(cfg)
	if err != nil {
		fmt.Fprintln(os.Stderr, err)
		os.Exit(2)
	}
	fmt.Fprintf(os.Stderr, "loaded in %v\n", time.Since(t0))
	res := g.Explore(*h, params, *workers, time.Now().Add(time.Duration(*tmo)*time.Second), 8)
	printResult(res, *verbose)
	if *verbose {
		var ks []string
		for k, v := range g.fnCount {
			ks = append(ks, fmt.Sprintf("%s=%d", k, v))
		}
		sort.Strings(ks)
		fmt.Println("  counters:", strings.Join(ks, " "))
	}
}

func printResult(res *HarnessResult, verbose bool) {
	fmt.Printf("harness %s: paths=%d ends=%v steps=%d transitions=%d queries=%d (assert sat/unsat via solver: %d/%d folded %d) wall=%v solver=%v\n",
		res.Harness, res.Paths, res.Ends, res.Steps, res.Transitions, res.Queries, res.AssertQ-res.AssertUnsat, res.AssertUnsat, res.AssertFolded, res.Wall.Round(time.Millisecond), res.Solver.Time.Round(time.Millisecond))
	var cs []string
	for c, n := range res.Covers {
		cs = append(cs, fmt.Sprintf("%s:%d", c, n))
	}
	sort.Strings(cs)
	fmt.Printf("  covers: %s\n", strings.Join(cs, " "))
	var as []string
	for a, n := range res.Asserts {
		as = append(as, fmt.Sprintf("%s:%d", a, n))
	}
	sort.Strings(as)
	fmt.Printf("  asserts: %s\n", strings.Join(as, " "))
	for _, i := range res.Inconclusive {
		fmt.Printf("  INCONCLUSIVE: %s\n", i)
	}
	for _, u := range res.Unknowns {
		fmt.Printf("  unknown: %s\n", u)
	}
	for _, v := range res.Violations {
		fmt.Printf("  VIOLATION %s: %s\n", v.Sig, v.Msg)
		if verbose {
			b, _ := json.Marshal(v)
			fmt.Printf("    %s\n", b)
		}
	}
	if verbose {
		for _, s := range res.Samples {
			b, _ := json.Marshal(s)
			fmt.Printf("  sample: %s\n", b)
		}
	}
}

func cmdTrail(args []string) {
	fs := flag.NewFlagSet("trail", flag.ExitOnError)
	h := fs.String("harness", "", "harness function")
	tr := fs.String("trail", "", "comma separated decisions")
	params := paramFlag{}
	fs.Var(params, "p", "param k=v")
	fs.Parse(args)
	g, err := loadEngine(defaultConfig())
	if err != nil {
		fmt.Fprintln(os.Stderr, err)
		os.Exit(2)
	}
	var trail []int
	for _, s := range strings.Split(*tr, ",") {
		if s == "" {
			continue
		}
		v, _ := strconv.Atoi(s)
		trail = append(trail, v)
	}
	e := g.RunTrail(*h, params, trail, nil)
	fmt.Printf("end=%s %s\nkinds=%v\ntaken=%v\n", e.endKind, e.endMsg, e.kinds, e.taken)
	for _, l := range e.log {
		fmt.Printf("  log %s=%s\n", l.Tag, l.Val)
	}
	for _, v := range e.violations {
		fmt.Printf("  violation %s %s\n", v.Sig, v.Msg)
	}
	for _, c := range e.pc {
		fmt.Printf("  pc %s\n", c)
	}
}
