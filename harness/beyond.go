//go:build verif

package flyt

import "context"

// "Beyond the bound" runs: concrete, large instances (hundreds of visits / keys / elements) that the
// symbolic harnesses cannot afford to make symbolic. They catch size thresholds (caches, chunking,
// compaction, cycle guards, recycling) that small exhaustive instances cannot reach. The data is
// concrete here; where goroutines are involved all schedules are still explored.

var vKeys = [...]string{"k000", "k001", "k002", "k003", "k004", "k005", "k006", "k007", "k008", "k009", "k010", "k011", "k012", "k013", "k014", "k015", "k016", "k017", "k018", "k019", "k020", "k021", "k022", "k023", "k024", "k025", "k026", "k027", "k028", "k029", "k030", "k031", "k032", "k033", "k034", "k035", "k036", "k037", "k038", "k039", "k040", "k041", "k042", "k043", "k044", "k045", "k046", "k047", "k048", "k049", "k050", "k051", "k052", "k053", "k054", "k055", "k056", "k057", "k058", "k059", "k060", "k061", "k062", "k063", "k064", "k065", "k066", "k067", "k068", "k069", "k070", "k071", "k072", "k073", "k074", "k075", "k076", "k077", "k078", "k079", "k080", "k081", "k082", "k083", "k084", "k085", "k086", "k087", "k088", "k089", "k090", "k091", "k092", "k093", "k094", "k095", "k096", "k097", "k098", "k099", "k100", "k101", "k102", "k103", "k104", "k105", "k106", "k107", "k108", "k109", "k110", "k111", "k112", "k113", "k114", "k115", "k116", "k117", "k118", "k119", "k120", "k121", "k122", "k123", "k124", "k125", "k126", "k127", "k128", "k129", "k130", "k131", "k132", "k133", "k134", "k135", "k136", "k137", "k138", "k139", "k140", "k141", "k142", "k143", "k144", "k145", "k146", "k147", "k148", "k149", "k150", "k151", "k152", "k153", "k154", "k155", "k156", "k157", "k158", "k159"}

// ---- C03: a long legitimate cycle runs to its end
type c03LoopNode struct {
	visits int
	until  int
}

func (n *c03LoopNode) Prep(ctx context.Context, s *SharedStore) (any, error) { return nil, nil }
func (n *c03LoopNode) Exec(ctx context.Context, p any) (any, error)          { return nil, nil }
func (n *c03LoopNode) Post(ctx context.Context, s *SharedStore, p, e any) (Action, error) {
	n.visits++
	if n.visits < n.until {
		return "again", nil
	}
	return "done", nil
}

func VH_C03_longloop() {
	visits := vParam("visits", 300)
	a := &c03LoopNode{until: visits}
	end := &vSimpleNode{act: "end"}
	f := NewFlow(a)
	f.Connect(a, "again", a).Connect(a, "done", end)
	err := f.Run(vNewCtx(), NewSharedStore())
	vAssert(err == nil, "long-cycle-is-not-cut-short")
	vAssert(a.visits == visits && end.visits == 1, "every-connected-step-of-a-long-path-is-taken")
	// a two-node cycle
	b1 := &c03LoopNode{until: visits / 2}
	b2 := &vSimpleNode{act: "back"}
	g := NewFlow(b1)
	g.Connect(b1, "again", b2).Connect(b2, "back", b1)
	err = g.Run(vNewCtx(), NewSharedStore())
	vAssert(err == nil && b1.visits == visits/2 && b2.visits == visits/2-1, "two-node-cycle-runs-to-its-end")
	vLog("visits", a.visits)
	vCover("long-loop")
}

// ---- C13: a large Merge is atomic too (reader sees all of it or none of it)
func VH_C13_bigmerge() {
	n := vParam("keys", 70)
	s := NewSharedStore()
	m := map[string]any{}
	for i := 0; i < n; i++ {
		m[vKeys[i]] = 1
	}
	seen, got, done := 0, 0, 0
	go func() {
		s.Merge(m)
		vMonC(1, func() { done++ })
	}()
	go func() {
		all := s.GetAll()
		ln := s.Len()
		vMonC(1, func() { seen, got = len(all), ln; done++ })
	}()
	vBlockUntil(func() bool { return done == 2 })
	vAssert(seen == 0 || seen == n, "reader-sees-all-or-nothing-of-a-large-merge")
	vAssert(got == 0 || got == n, "len-sees-all-or-nothing-of-a-large-merge")
	vAssert(s.Len() == n, "large-merge-applied")
	if seen == 0 {
		vCover("reader-before-merge")
	} else {
		vCover("reader-after-merge")
	}
}

// ---- C14: snapshots stay isolated after heavy churn
func VH_C14_churn() {
	n := vParam("keys", 140)
	s := NewSharedStore()
	for i := 0; i < n; i++ {
		s.Set(vKeys[i], i)
	}
	for i := 0; i < n-5; i++ {
		s.Delete(vKeys[i])
	}
	vAssert(s.Len() == 5, "len-after-churn")
	snap := s.GetAll()
	ks := s.Keys()
	vAssert(len(snap) == 5 && len(ks) == 5, "snapshot-after-churn")
	snap["intruder"] = 1
	delete(snap, vKeys[n-1])
	vAssert(!s.Has("intruder") && s.Has(vKeys[n-1]) && s.Len() == 5, "mutating-a-snapshot-does-not-change-the-store")
	snap2 := s.GetAll()
	s.Set("later", 2)
	s.Delete(vKeys[n-2])
	_, hasLater := snap2["later"]
	_, stillThere := snap2[vKeys[n-2]]
	vAssert(!hasLater && stillThere && len(snap2) == 5, "later-store-updates-do-not-change-a-snapshot")
	s.Clear()
	vAssert(s.Len() == 0 && len(snap2) == 5, "clear-does-not-change-a-snapshot")
	vLog("len", s.Len())
	// a store cleared while it was big (all n keys live) is an empty store like any other, whatever
	// comes first afterwards
	for i := 0; i < n; i++ {
		s.Set(vKeys[i], i)
	}
	s.Clear()
	switch vChoice("firstOperationAfterABigClear", 4) {
	case 0:
		s.Merge(map[string]any{"m1": 1, "m2": 2})
		vAssert(s.Len() == 2 && s.Has("m1") && s.Has("m2"), "merge-after-a-big-clear")
	case 1:
		s.Set("s1", 1)
		vAssert(s.Len() == 1 && s.Has("s1"), "set-after-a-big-clear")
	case 2:
		s.Delete(vKeys[0])
		s.Merge(nil)
		vAssert(s.Len() == 0, "delete-after-a-big-clear")
	default:
		vAssert(s.Len() == 0 && len(s.Keys()) == 0 && len(s.GetAll()) == 0 && !s.Has(vKeys[0]), "reads-after-a-big-clear")
	}
	vCover("churn")
}

// ---- C15: the store's slice getter agrees with the result accessor on the CURRENT value, also
// for long slices and after the key was overwritten (by Set and by Merge)
func VH_C15_bigslice() {
	n := vParam("len", 300)
	mk := func(base int) []int {
		x := make([]int, n)
		for i := range x {
			x[i] = base + i
		}
		return x
	}
	check := func(s *SharedStore, cur []int, label string) {
		g := s.GetSlice("items")
		r, ok := NewResult(any(cur)).AsSlice()
		vAssert(ok && len(g) == len(r) && len(g) == n, label)
		for i := 0; i < n; i += 37 {
			vAssert(vSame(g[i], r[i]), label)
		}
	}
	s := NewSharedStore()
	a, b, c := mk(0), mk(-1000), mk(5000)
	s.Set("items", a)
	check(s, a, "store-slice-getter-agrees-with-result-accessor")
	s.Merge(map[string]any{"items": b})
	check(s, b, "store-slice-getter-agrees-after-merge-overwrite")
	s.Set("items", c)
	check(s, c, "store-slice-getter-agrees-after-set-overwrite")
	s.Delete("items")
	vAssert(s.GetSlice("items") == nil, "store-slice-getter-default-after-delete")
	vLog("n", n)
	vCover("big-slice")
}

// ---- C10: a long-lived nested arrangement: the same outer flow (with an embedded flow that is
// entered once per outer pass, through a loop in the parent) keeps behaving like the flattened
// machine after many thousands of node executions (lifetime counters, caches, step limits)
type c10CountNode struct {
	visits int
	until  int
	more   Action
}

func (n *c10CountNode) Prep(ctx context.Context, s *SharedStore) (any, error) { n.visits++; return nil, nil }
func (n *c10CountNode) Exec(ctx context.Context, p any) (any, error)          { return nil, nil }
func (n *c10CountNode) Post(ctx context.Context, s *SharedStore, p, e any) (Action, error) {
	if n.visits < n.until {
		return n.more, nil
	}
	return "done", nil
}

func VH_C10_manyVisits() {
	passes := vParam("passes", 5200)
	// outer: S -again-> IN -default-> S ... until S has been visited `passes` times, then S -done-> T
	// IN (inner): A -default-> B (unconnected afterwards: ends, reports B's action "default")
	s := &c10CountNode{until: passes, more: "again"}
	a, b := &vSimpleNode{act: DefaultAction}, &vSimpleNode{act: DefaultAction}
	t := &vSimpleNode{act: "end"}
	inner := NewFlow(a)
	inner.Connect(a, DefaultAction, b)
	outer := NewFlow(s)
	outer.Connect(s, "again", inner).Connect(inner, DefaultAction, s).Connect(s, "done", t)
	err := outer.Run(vNewCtx(), NewSharedStore())
	vAssert(err == nil, "long-lived-nested-flow-runs-to-its-end")
	vAssert(s.visits == passes && a.visits == passes-1 && b.visits == passes-1 && t.visits == 1, "visit-order-equals-flattened-machine")
	vCover("many-visits")
}

// ---- C13: a long-lived store: after more than a thousand effective deletions (maintenance thresholds:
// compaction, rebuilds, background work) a Clear is still final — nothing it removed comes back,
// whatever a goroutine left behind by an earlier operation does afterwards
func VH_C13_manyDeletes() {
	n := vParam("deletes", 1100)
	s := NewSharedStore()
	s.Set("b", 1)
	s.Set("c", 2)
	for i := 0; i < n; i++ {
		s.Set("a", i)
		s.Delete("a")
	}
	s.Clear()
	vQuiesce() // let whatever the store left running finish
	vAssert(s.Len() == 0 && !s.Has("b") && !s.Has("c"), "some-sequential-order-explains-both-results")
	s.Set("d", 3)
	vQuiesce()
	v, ok := s.Get("d")
	vAssert(ok && v == 3 && s.Len() == 1, "some-sequential-order-explains-both-results")
	vCover("many-deletes")
}

// ---- C10: "at any nesting depth", well beyond the symbolic instances: one run through a tower of
// `depth` flows around a two-node chain (concrete)
func VH_C10_deep() {
	depth := vParam("depth", 70)
	a, b := &vSimpleNode{act: DefaultAction}, &vSimpleNode{act: "up"}
	f := NewFlow(a)
	f.Connect(a, DefaultAction, b)
	var top Node = f
	for d := 1; d < depth; d++ {
		top = NewFlow(top) // a flow whose only node is the previous flow: it reports that flow's action
	}
	after := &vSimpleNode{act: "end"}
	outer := NewFlow(top)
	outer.Connect(top, "up", after)
	err := outer.Run(vNewCtx(), NewSharedStore())
	vAssert(err == nil, "nested-run-equals-flattened-machine:outcome")
	vAssert(a.visits == 1 && b.visits == 1 && after.visits == 1, "nested-run-equals-flattened-machine:visit-order")
	vCover("deep-tower")
}

// ... and many independent nested runs in flight at the same time (each on its own objects; run i's
// innermost node starts run i+1 on another goroutine and waits for it, so all of them are inside
// their innermost flow together): none of them is affected by the others
type c10SpawnNode struct {
	*BaseNode
	next   func() // starts the next run and waits for it
	visits int
}

func (n *c10SpawnNode) Post(ctx context.Context, s *SharedStore, p, e any) (Action, error) {
	n.visits++
	if n.next != nil {
		n.next()
	}
	return "up", nil
}

func VH_C10_manyRuns() {
	runs, depth := vParam("runs", 20), vParam("depth", 4)
	ok := make([]bool, runs)
	var start func(i int)
	start = func(i int) {
		leaf := &c10SpawnNode{BaseNode: NewBaseNode()}
		if i+1 < runs {
			leaf.next = func() {
				done := false
				go func() {
					start(i + 1)
					vMon(func() { done = true })
				}()
				vBlockUntil(func() bool { return done })
			}
		}
		var top Node = NewFlow(leaf)
		for d := 1; d < depth; d++ {
			top = NewFlow(top)
		}
		after := &vSimpleNode{act: "end"}
		outer := NewFlow(top)
		outer.Connect(top, "up", after)
		err := outer.Run(vNewCtx(), NewSharedStore())
		ok[i] = err == nil && leaf.visits == 1 && after.visits == 1
	}
	start(0)
	for i := 0; i < runs; i++ {
		vAssert(ok[i], "nested-run-equals-flattened-machine:outcome")
	}
	vCover("many-runs-in-flight")
}
