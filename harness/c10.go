//go:build verif

package flyt

import (
	"context"
	"fmt"
)

// C10 — a flow used as a node behaves like a node.

type c10Mon struct {
	store    *SharedStore
	seq      [12]int // visit log (probe ids)
	n        int
	lastAct  Action // action returned by the most recent probe (un-normalised)
	failed   bool
}

type c10Probe struct {
	id   int
	m    *c10Mon
	fail bool // may fail in post (symbolic)
}

func (p *c10Probe) Prep(ctx context.Context, s *SharedStore) (any, error) {
	vAssert(s == p.m.store, "inner-node-sees-the-parents-store")
	vAssert(!p.m.failed, "nothing-runs-after-an-inner-error")
	if p.m.n < len(p.m.seq) {
		p.m.seq[p.m.n] = p.id
	}
	p.m.n++
	vAssume(p.m.n <= 8)
	return nil, nil
}
func (p *c10Probe) Exec(ctx context.Context, x any) (any, error) { return nil, nil }
func (p *c10Probe) Post(ctx context.Context, s *SharedStore, x, e any) (Action, error) {
	a := vNondet[Action]("act")
	p.m.lastAct = a
	if p.fail && vNondet[bool]("postFail") {
		p.m.failed = true
		return a, vNewErr()
	}
	return a, nil
}

func c10Norm(a Action) Action {
	if a == "" {
		return DefaultAction
	}
	return a
}

// outer: p0 -default-> inner ; inner -default-> p1 ; inner -"b"-> p2
// inner: q0 -default-> q1, q0 -"b"-> nil(ends), q1 unconnected
func VH_C10_depth2() {
	vUnwind(10)
	m := &c10Mon{store: NewSharedStore()}
	p0 := &c10Probe{id: 0, m: m}
	p1 := &c10Probe{id: 1, m: m}
	p2 := &c10Probe{id: 2, m: m}
	q0 := &c10Probe{id: 10, m: m, fail: true}
	q1 := &c10Probe{id: 11, m: m, fail: true}
	inner := NewFlow(q0)
	inner.Connect(q0, DefaultAction, q1)
	inner.Connect(q0, "b", nil)
	depth := vParam("depth", 2)
	var innerNode Node = inner
	for d := 2; d < depth; d++ {
		innerNode = NewFlow(innerNode) // wrap one level deeper: must be transparent
	}
	outer := NewFlow(p0)
	outer.Connect(p0, DefaultAction, innerNode)
	outer.Connect(innerNode, DefaultAction, p1)
	outer.Connect(innerNode, "b", p2)
	err := outer.Run(vNewCtx(), m.store)

	// flattened reference machine
	vAssert(m.n >= 1 && m.seq[0] == 0, "outer-start-runs-first")
	// p0's action was overwritten in lastAct by later probes; recompute the expected sequence from the log
	if m.n == 1 {
		vCover("outer-ends-at-p0")
		return
	}
	vAssert(m.seq[1] == 10, "inner-flow-starts-at-its-start-node")
	if m.failed {
		vCover("inner-error")
		vAssert(err != nil, "inner-error-fails-the-outer-run")
		return
	}
	// after the inner flow, the outer routes on the inner flow's LAST node's (normalised) action
	last := m.seq[m.n-1]
	if last == 1 || last == 2 {
		vCover("outer-routes-on-inner-action")
	}
	vLog("n", m.n)
}

// A precise differential version: the action script is recorded per visit and replayed on a
// flattened reference machine.
type c10Rec struct {
	innerCtx context.Context // the context an inner-flow node was given
	store *SharedStore
	errForm int
	ids   [10]int
	acts  [10]Action
	fails [10]bool
	n     int
}

type c10RProbe struct {
	id   int
	r    *c10Rec
	fail bool
}

func (p *c10RProbe) Prep(ctx context.Context, s *SharedStore) (any, error) {
	vAssert(s == p.r.store, "inner-node-sees-the-parents-store")
	if p.id >= 10 && p.r.innerCtx == nil {
		p.r.innerCtx = ctx
	}
	if p.id < 10 && p.r.innerCtx != nil {
		// a flattened machine hands every node the run's context, which is still alive here
		vAssert(p.r.innerCtx.Err() == nil, "context-given-to-inner-nodes-outlives-the-inner-flow")
		vCover("inner-context-checked-after-the-inner-flow")
	}
	return nil, nil
}
func (p *c10RProbe) Exec(ctx context.Context, x any) (any, error) { return nil, nil }
func (p *c10RProbe) Post(ctx context.Context, s *SharedStore, x, e any) (Action, error) {
	r := p.r
	vAssume(r.n < 8)
	a := vNondet[Action]("act")
	r.ids[r.n] = p.id
	r.acts[r.n] = a
	f := p.fail && vNondet[bool]("postFail")
	r.fails[r.n] = f
	r.n++
	if f {
		switch r.errForm {
		// an inner node failing on its own timeout / cancelled sub-call while the run's context is
		// alive: an inner error like any other
		case 1:
			vCover("inner-error-wraps-a-context-error")
			return a, fmt.Errorf("inner call: %w", context.DeadlineExceeded)
		case 2:
			vCover("inner-error-wraps-a-context-error")
			return a, fmt.Errorf("inner call: %w", context.Canceled)
		}
		return a, vNewErr()
	}
	return a, nil
}

// flattened reference for the arrangement of VH_C10_flat:
//   outer: p0 -d-> IN, p0 -b-> p3, p3 -d-> IN (the inner flow is reused), IN -d-> p1, IN -b-> p2
//   IN (inner): q0 -d-> q1, q0 -b-> nil, q1 -b-> q0 (loop back), q1 -d-> unconnected
func VH_C10_flat() {
	vUnwind(12)
	r := &c10Rec{store: NewSharedStore(), errForm: vChoice("errForm", 3)}
	p0 := &c10RProbe{id: 0, r: r}
	p1 := &c10RProbe{id: 1, r: r}
	p2 := &c10RProbe{id: 2, r: r}
	p3 := &c10RProbe{id: 3, r: r}
	q0 := &c10RProbe{id: 10, r: r, fail: true}
	q1 := &c10RProbe{id: 11, r: r}
	inner := NewFlow(q0)
	topDown := vNondet[bool]("wiredTopDown")
	if !topDown {
		inner.Connect(q0, DefaultAction, q1).Connect(q0, "b", nil).Connect(q1, "b", q0)
	}
	depth := vParam("depth", 2)
	var in Node = inner
	for d := 2; d < depth; d++ {
		in = NewFlow(in)
	}
	outer := NewFlow(p0)
	outer.Connect(p0, DefaultAction, in).Connect(p0, "b", p3).Connect(p3, DefaultAction, in)
	outer.Connect(in, DefaultAction, p1).Connect(in, "b", p2)
	if topDown {
		// the order in which the flows are wired does not matter: the inner flow may get its
		// connections after it has been embedded in its parent
		vCover("wired-top-down")
		inner.Connect(q0, DefaultAction, q1).Connect(q0, "b", nil).Connect(q1, "b", q0)
	}
	err := outer.Run(vNewCtx(), r.store)

	// replay the recorded (id, action) script on the flattened machine
	cur := 0 // expected id
	ended := false
	failed := false
	for i := 0; i < r.n; i++ {
		vAssert(!ended, "no-visit-after-the-flattened-machine-ended")
		vAssert(r.ids[i] == cur, "visit-order-equals-flattened-machine")
		if r.fails[i] {
			failed = true
			ended = true
			continue
		}
		a := c10Norm(r.acts[i])
		switch cur {
		case 0:
			if a == DefaultAction {
				cur = 10
			} else if a == "b" {
				cur = 3
			} else {
				ended = true
			}
		case 3:
			if a == DefaultAction {
				cur = 10
				vCover("inner-flow-reused")
			} else {
				ended = true
			}
		case 10:
			if a == DefaultAction {
				cur = 11
			} else if a == "b" {
				// nil connection ends the inner flow; it reports "b" to the parent
				cur = 2
				vCover("inner-ends-nil")
			} else {
				// unconnected action ends the inner flow; parent has no edge for it either
				ended = true
				vCover("inner-ends-unconnected-foreign")
			}
		case 11:
			if a == "b" {
				cur = 10
				vCover("inner-loop")
			} else if a == DefaultAction {
				cur = 1 // inner ends (unconnected), reports default, parent goes to p1
				vCover("outer-routes-on-inner-default")
			} else {
				ended = true
			}
		case 1, 2:
			if cur == 2 {
				vCover("outer-routes-on-inner-b")
			}
			ended = true
		}
	}
	vAssert(ended, "flow-does-not-stop-before-the-flattened-machine-ends")
	if failed {
		vCover("inner-error")
		vAssert(err != nil, "inner-error-fails-the-outer-run")
	}
	vLog("n", r.n)
}

// A symbolic inner table: the inner flow has two probes whose four (node, action) slots are each
// unconnected or connected to nil / q0 / q1 (targets lazily symbolic); the outer flow routes the
// inner flow's final action to p1 (default) or p2 ("b") or ends. A flattened reference machine is
// stepped in lock-step inside the probes.
type c10SymMon struct {
	store    *SharedStore
	expected int // probe id that must run next, -1 = the whole arrangement has ended
	ref      [2][2]int // inner table: -2 unconnected, -1 nil, 0/1 = q0/q1
	visits   int
}

type c10SymProbe struct {
	id int // 0 p0, 1 p1, 2 p2, 10 q0, 11 q1
	m  *c10SymMon
}

func (p *c10SymProbe) Prep(ctx context.Context, s *SharedStore) (any, error) {
	m := p.m
	vAssert(s == m.store, "inner-node-sees-the-parents-store")
	vAssert(m.expected == p.id, "visit-order-equals-flattened-machine")
	m.visits++
	vAssume(m.visits <= vParam("V", 6))
	return nil, nil
}
func (p *c10SymProbe) Exec(ctx context.Context, x any) (any, error) { return nil, nil }
func (p *c10SymProbe) Post(ctx context.Context, s *SharedStore, x, e any) (Action, error) {
	m := p.m
	a := vNondet[Action]("act")
	j := -1
	if a == "" || a == DefaultAction {
		j = 0
	} else if a == "b" {
		j = 1
	}
	// where does the flattened machine go after this probe returned a?
	outer := func() int { // the inner flow ended with (normalised) action index j
		switch j {
		case 0:
			return 1
		case 1:
			return 2
		}
		return -1
	}
	switch p.id {
	case 0:
		if j == 0 {
			m.expected = 10
		} else {
			m.expected = -1
		}
	case 1, 2:
		m.expected = -1
	default:
		q := p.id - 10
		if j < 0 {
			vCover("inner-ends-on-foreign-action")
			m.expected = -1 // unconnected in the inner flow, and the outer flow has no edge for it either
		} else {
			r := m.ref[q][j]
			if r == -2 {
				vCover("inner-ends-unconnected")
				m.expected = outer()
			} else if r == -1 {
				vCover("inner-ends-nil")
				m.expected = outer()
			} else {
				m.expected = 10 + r
			}
		}
	}
	return a, nil
}

func VH_C10_symbolic() {
	vUnwind(12)
	m := &c10SymMon{store: NewSharedStore()}
	p0 := &c10SymProbe{id: 0, m: m}
	p1 := &c10SymProbe{id: 1, m: m}
	p2 := &c10SymProbe{id: 2, m: m}
	q := [2]*c10SymProbe{{id: 10, m: m}, {id: 11, m: m}}
	targets := []any{Node(nil), Node(q[0]), Node(q[1])}
	acts := [2]Action{DefaultAction, "b"}
	inner := NewFlow(q[0])
	for i := 0; i < 2; i++ {
		for j := 0; j < 2; j++ {
			m.ref[i][j] = -2
			if vNondet[bool]("connected") {
				t := vNondet[int]("target")
				vAssume(0 <= t && t <= 2)
				inner.Connect(q[i], acts[j], asNode(vPick(t, targets...)))
				m.ref[i][j] = t - 1
			}
		}
	}
	depth := vParam("depth", 2)
	var in Node = inner
	for d := 2; d < depth; d++ {
		in = NewFlow(in)
	}
	outer := NewFlow(p0)
	outer.Connect(p0, DefaultAction, in).Connect(in, DefaultAction, p1).Connect(in, "b", p2)
	m.expected = 0
	err := outer.Run(vNewCtx(), m.store)
	vAssert(err != nil || m.expected == -1, "flow-does-not-stop-before-the-flattened-machine-ends")
	if m.visits >= 3 {
		vCover("outer-continued-after-inner")
	}
}

// the same arrangement run twice: whatever happened in the first run (an inner node failing, the
// context being cancelled at any callback, an inner flow with its own retry budget being retried or
// cut short), the second run — clean, fresh context, fresh store — is the flattened machine's path
type c10ReMon struct {
	store  *SharedStore
	ctx    *vCtx
	chaos  bool
	seq    [8]int
	n      int
	cancelled bool
}

type c10ReProbe struct {
	id int
	m  *c10ReMon
}

func (p *c10ReProbe) trouble(where string) error {
	m := p.m
	if !m.chaos {
		return nil
	}
	if !m.cancelled && vNondet[bool]("cancelHere") {
		m.ctx.cancel(vNondet[bool]("deadlineKind"))
		m.cancelled = true
		vCover("first-run-cancelled")
	}
	if vNondet[bool]("failHere") {
		vCover("first-run-callback-error")
		if m.cancelled {
			return m.ctx.Err() // a node failing BECAUSE its context ended
		}
		return vNewErr()
	}
	return nil
}

func (p *c10ReProbe) Prep(ctx context.Context, s *SharedStore) (any, error) {
	m := p.m
	if m.chaos {
		vAssert(s == m.store, "inner-node-sees-the-parents-store") // also on a retried attempt of the inner flow
	}
	if !m.chaos {
		vAssert(s == m.store, "inner-node-sees-the-parents-store")
		if m.n < len(m.seq) {
			m.seq[m.n] = p.id
		}
		m.n++
	}
	return nil, nil
}
func (p *c10ReProbe) Exec(ctx context.Context, x any) (any, error) { return nil, p.trouble("exec") }
func (p *c10ReProbe) Post(ctx context.Context, s *SharedStore, x, e any) (Action, error) {
	return DefaultAction, p.trouble("post")
}

func VH_C10_rerun() {
	vUnwind(12)
	m := &c10ReMon{store: NewSharedStore(), ctx: vNewCtx(), chaos: true}
	p0, p1 := &c10ReProbe{id: 0, m: m}, &c10ReProbe{id: 1, m: m}
	q0, q1, q2 := &c10ReProbe{id: 10, m: m}, &c10ReProbe{id: 11, m: m}, &c10ReProbe{id: 12, m: m}
	inner := NewFlow(q0)
	inner.Connect(q0, DefaultAction, q1).Connect(q1, DefaultAction, q2)
	R := vNondet[int]("innerBudget")
	vAssume(1 <= R && R <= vParam("R", 2))
	R = vConcrete(R)
	WithMaxRetries(R)(inner.BaseNode)
	if R > 1 {
		vCover("inner-flow-with-retry-budget")
	}
	outer := NewFlow(p0)
	outer.Connect(p0, DefaultAction, inner).Connect(inner, DefaultAction, p1)
	_, err1 := Run(m.ctx, outer, m.store)
	_ = err1
	// second run: clean
	m.chaos, m.ctx, m.store = false, vNewCtx(), NewSharedStore()
	_, err := Run(m.ctx, outer, m.store)
	vAssert(err == nil, "clean-second-run-succeeds")
	want := [5]int{0, 10, 11, 12, 1}
	vAssert(m.n == 5, "second-run-visits-the-flattened-path")
	for i := 0; i < m.n && i < 5; i++ {
		vAssert(m.seq[i] == want[i], "visit-order-equals-flattened-machine")
	}
	vCover("second-run")
}
