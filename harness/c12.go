//go:build verif

package flyt

import "time"

// C12 — worker pool: tasks run exactly once, Wait is a barrier, Close leaks nothing.

type c12Mon struct {
	inflight int
	finished int
}

func c12PoolSize() int {
	maxW := vParam("w", 2)
	w := vNondet[int]("w")
	vAssume(vParam("wmin", -1) <= w && w <= maxW)
	return vConcrete(w)
}

func VH_C12_pool() {
	w := c12PoolSize()
	t := vParam("tasks", 3)
	m := &c12Mon{}
	pool := NewWorkerPool(w)
	ran := make([]int, t)
	vRaceChecked(ran) // plain writes by tasks, read after Wait: Wait must order them
	for i := 0; i < t; i++ {
		i := i
		pool.Submit(func() {
			vMon(func() { m.inflight++ })
			ran[i]++
			vMon(func() { m.inflight--; m.finished++ })
		})
	}
	pool.Wait()
	vMon(func() {
		vAssert(m.inflight == 0, "wait-does-not-return-while-a-task-is-running")
		vAssert(m.finished == t, "wait-returns-only-after-all-submitted-tasks-finished")
	})
	for i := 0; i < t; i++ {
		vAssert(ran[i] == 1, "every-task-ran-exactly-once")
	}
	if w <= 0 {
		vCover("w<=0")
	}
	if t > 2*w+1 && w >= 1 {
		vCover("more-tasks-than-queue-plus-workers")
	}
	pool.Close()
	vAssert(vQuiesce() == 0, "all-pool-goroutines-terminate-after-close")
	vCover("closed")
}

// a second Submit/Wait round on the same pool
func VH_C12_rounds() {
	w := c12PoolSize()
	t := vParam("tasks", 2)
	pool := NewWorkerPool(w)
	ran := make([]int, 2*t)
	vRaceChecked(ran)
	idle := vNondet[bool]("idleBetweenTheRounds")
	if idle {
		vCover("idle-between-the-rounds")
	}
	for round := 0; round < 2; round++ {
		for i := 0; i < t; i++ {
			k := round*t + i
			pool.Submit(func() { ran[k]++ })
		}
		pool.Wait()
		if round == 0 && idle {
			time.Sleep(time.Second) // the pool sits idle for a (virtual) second between the rounds
		}
		for i := 0; i < (round+1)*t; i++ {
			vAssert(ran[i] == 1, "every-task-ran-exactly-once")
		}
		for i := (round + 1) * t; i < 2*t; i++ {
			vAssert(ran[i] == 0, "no-task-runs-before-it-is-submitted")
		}
	}
	vCover("second-round")
	pool.Close()
	vAssert(vQuiesce() == 0, "all-pool-goroutines-terminate-after-close")
}

// two submitting goroutines
func VH_C12_multi() {
	w := c12PoolSize()
	t := vParam("tasks", 2)
	pool := NewWorkerPool(w)
	ran := make([]int, 2*t)
	vRaceChecked(ran)
	subDone := 0
	for s := 0; s < 2; s++ {
		s := s
		go func() {
			for i := 0; i < t; i++ {
				k := s*t + i
				pool.Submit(func() { ran[k]++ })
			}
			vMon(func() { subDone++ })
		}()
	}
	vBlockUntil(func() bool { return subDone == 2 })
	pool.Wait()
	for i := 0; i < 2*t; i++ {
		vAssert(ran[i] == 1, "every-task-ran-exactly-once")
	}
	vCover("two-submitters")
	pool.Close()
	vAssert(vQuiesce() == 0, "all-pool-goroutines-terminate-after-close")
}

// Wait while another goroutine is still submitting: the task submitted BEFORE the call (it is kept
// busy until the later submission has happened, so the pool is never idle in between) has finished
// when Wait returns, its effects visible — however quickly the later task completes
func VH_C12_waitWhileSubmitting() {
	vUnwind(24)
	pool := NewWorkerPool(2)
	effect := make([]int, 1)
	vRaceChecked(effect)
	bSubmitted, sDone := false, false
	pool.Submit(func() {
		vBlockUntil(func() bool { return bSubmitted })
		effect[0] = 1
	})
	go func() {
		pool.Submit(func() {})
		vMon(func() { bSubmitted = true })
		vMon(func() { sDone = true })
	}()
	pool.Wait()
	vAssert(effect[0] == 1, "wait-returns-only-after-previously-submitted-tasks-finished")
	vCover("wait-concurrent-with-a-submitter")
	vBlockUntil(func() bool { return sDone })
	pool.Wait()
	pool.Close()
	vAssert(vQuiesce() == 0, "all-pool-goroutines-terminate-after-close")
}

// repeated Wait rounds with a second goroutine: a Wait issued by another goroutine while a Submit is
// under way may or may not cover that task — but a Wait called AFTER the Submit returned waits for it
func VH_C12_waitRacesSubmit() {
	vUnwind(24)
	pool := NewWorkerPool(1)
	effect := make([]int, 1)
	vRaceChecked(effect)
	helperDone := false
	go func() {
		pool.Wait() // an early Wait on the (possibly still idle) pool
		vMon(func() { helperDone = true })
	}()
	pool.Submit(func() { effect[0] = 1 })
	pool.Wait()
	vAssert(effect[0] == 1, "wait-returns-only-after-previously-submitted-tasks-finished")
	vCover("wait-round-raced-by-a-submit")
	vBlockUntil(func() bool { return helperDone })
	pool.Close()
	vAssert(vQuiesce() == 0, "all-pool-goroutines-terminate-after-close")
}

// back-pressure: while every worker is held inside a task, a goroutine that keeps submitting comes
// to a halt (Submit blocks) long before `tasks` submissions - far more than any queue of a pool of
// this size holds - have been accepted
func VH_C12_backPressure() {
	w := vParam("w", 1)
	t := vParam("tasks", 40)
	vUnwind(t + 8)
	pool := NewWorkerPool(w)
	gate := false
	returned, ran, submitterDone := 0, 0, false
	go func() {
		for i := 0; i < t; i++ {
			pool.Submit(func() {
				vBlockUntil(func() bool { return gate })
				vMon(func() { ran++ })
			})
			vMon(func() { returned++ })
		}
		vMon(func() { submitterDone = true })
	}()
	vQuiesce() // everything that can happen with the gate shut has happened
	vMon(func() { vAssert(returned < t, "submit-blocks-when-workers-are-busy-and-the-queue-is-full") })
	// (that nothing is dropped once the workers go on is what VH_C12_pool checks with more tasks
	// than queue slots; the run ends here with the gate shut)
	_, _ = ran, submitterDone
	vCover("back-pressure")
}
