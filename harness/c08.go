//go:build verif

package flyt

import (
	"context"
	"time"
)

// C08 — the concurrency limit is a hard bound and is fully usable.

// at most c executions in flight, in every reachable state of every schedule
func VH_C08_bound() {
	vUnwind(24)
	m := &bMon{}
	bConfig(m)
	vAssume(m.c >= 1)
	m.stop = vNondet[bool]("stop")
	exec := func(ctx context.Context, item Result) (Result, error) {
		k := bIndex(item)
		vMonC(1, func() {
			m.started[k]++
			m.inflight++
			if m.inflight > m.maxIn {
				m.maxIn = m.inflight
			}
			vAssert(m.inflight <= m.c, "never-more-than-c-executions-in-flight")
		})
		vMonC(2, func() {
			m.inflight--
			m.finished[k]++
		})
		return item, nil
	}
	b := bNode(m, exec)
	_, err := Run(m.ctx, b, NewSharedStore())
	_ = err
	if m.maxIn == m.c {
		vCover("limit-reached")
	}
	if m.n > m.c {
		vCover("more-items-than-workers")
	}
}

// concurrency <= 0: strictly one at a time, in item order
func VH_C08_seq() {
	vUnwind(24)
	m := &bMon{}
	bConfig(m)
	vAssume(m.c <= 0)
	next := 0
	exec := func(ctx context.Context, item Result) (Result, error) {
		k := bIndex(item)
		vMonC(1, func() {
			m.inflight++
			vAssert(m.inflight == 1, "sequential-one-at-a-time")
			vAssert(k == next, "sequential-in-item-order")
			next++
		})
		vMonC(2, func() { m.inflight-- })
		return item, nil
	}
	b := bNode(m, exec)
	_, err := Run(m.ctx, b, NewSharedStore())
	_ = err
	vCover("sequential")
}

// the limit is usable: c executions that all block until c are in flight do run simultaneously
func VH_C08_usable() {
	vUnwind(24)
	m := &bMon{}
	bConfig(m)
	vAssume(m.c >= 1 && m.n >= m.c)
	m.stop = vNondet[bool]("stop") // the limit is usable in both error-handling modes
	exec := func(ctx context.Context, item Result) (Result, error) {
		k := bIndex(item)
		if k < m.c {
			// the first c items are mutually dependent: each waits until all c of THEM are in flight
			// (other items come and go)
			vMonC(1, func() { m.inflight++ })
			vBlockUntil(func() bool { return m.maxIn >= m.c || m.inflight >= m.c })
			vMonC(3, func() { m.maxIn = m.c })
			vMonC(2, func() { m.inflight-- })
		}
		return item, nil
	}
	b := bNode(m, exec)
	_, err := Run(m.ctx, b, NewSharedStore())
	vAssert(err == nil && m.posts == 1, "c-mutually-dependent-items-complete")
	vCover("barrier-passed")
}

// pool sizes <= 0 mean one worker: such a pool runs its tasks, one at a time
func VH_C08_poolNonPositive() {
	vUnwind(24)
	k := vNondet[int]("k")
	vAssume(-3 <= k && k <= 0)
	k = vConcrete(k)
	inflight, ran := 0, 0
	p := NewWorkerPool(k)
	for i := 0; i < 2; i++ {
		p.Submit(func() {
			vMonC(1, func() {
				inflight++
				vAssert(inflight <= 1, "pool-of-size<=0-runs-one-task-at-a-time")
			})
			vMonC(2, func() { inflight--; ran++ })
		})
	}
	p.Wait()
	vMon(func() { vAssert(ran == 2, "pool-of-size<=0-still-runs-its-tasks") })
	vCover("k<=0")
}

// the same bound directly on the pool
func VH_C08_poolBound() {
	vUnwind(24)
	c := vParam("c", 2)
	t := vParam("tasks", 3)
	inflight := 0
	p := NewWorkerPool(c)
	for i := 0; i < t; i++ {
		p.Submit(func() {
			vMonC(1, func() {
				inflight++
				vAssert(inflight <= c, "never-more-than-c-tasks-in-flight")
			})
			vMonC(2, func() { inflight-- })
		})
	}
	if vNondet[bool]("closeWithoutWait") {
		// shutting the pool down while tasks are queued or running: whichever of them still run, the
		// bound holds until the last one has finished
		vCover("pool-closed-while-busy")
		p.Close()
		vQuiesce()
		return
	}
	p.Wait()
	vCover("pool-bound")
}

// the pool's limit is usable after the pool has been idle: c mutually dependent tasks submitted
// back to back to a pool that has already run (and finished) a task do run simultaneously
func VH_C08_poolUsable() {
	vUnwind(24)
	c := vParam("c", 2)
	inflight, reached := 0, false
	p := NewWorkerPool(c)
	if vNondet[bool]("warmUp") {
		p.Submit(func() {})
		p.Wait()
		vCover("warmed-up")
	}
	for i := 0; i < c; i++ {
		p.Submit(func() {
			vMonC(1, func() {
				inflight++
				if inflight >= c {
					reached = true
				}
			})
			vBlockUntil(func() bool { return reached })
			vMonC(2, func() { inflight-- })
		})
	}
	p.Wait()
	vCover("pool-barrier-passed")
}

// the limit that counts is the one configured when the run starts: the same node, run once with c1
// and then — reconfigured through the builder — with c2, is bounded by c2 and can use all of c2
func VH_C08_rerun() {
	vUnwind(24)
	m := &bMon{}
	maxc := vParam("c", 2)
	c1, c2 := vNondet[int]("c1"), vNondet[int]("c2")
	vAssume(0 <= c1 && c1 <= maxc && 1 <= c2 && c2 <= maxc && c1 != c2) // c1 == c2: VH_C08_bound / _usable
	c1, c2 = vConcrete(c1), vConcrete(c2)
	m.n, m.c, m.ctx = 1, c1, vNewCtx()
	m.firstFail, m.cancelAt = -1, -1
	phase := 1
	exec := func(ctx context.Context, item Result) (Result, error) {
		k := bIndex(item)
		if phase == 1 {
			return item, nil
		}
		vMonC(1, func() {
			m.inflight++
			vAssert(m.inflight <= c2, "never-more-than-c-executions-in-flight")
		})
		if k < c2 {
			// the first c2 items are mutually dependent: each waits until all c2 are in flight
			vBlockUntil(func() bool { return m.maxIn >= c2 || m.inflight >= c2 })
			vMonC(3, func() { m.maxIn = c2 })
		}
		vMonC(2, func() { m.inflight-- })
		return item, nil
	}
	b := bNode(m, exec)
	_, err1 := Run(m.ctx, b, NewSharedStore())
	vAssume(err1 == nil)
	phase = 2
	m.n, m.posts = c2, 0
	if c2 < c1 {
		m.n++ // one more item than workers: the lowered bound must hold
	}
	b.WithBatchConcurrency(c2)
	_, err := Run(m.ctx, b, NewSharedStore())
	vAssert(err == nil && m.posts == 1, "c-mutually-dependent-items-complete")
	switch {
	case c2 > c1:
		vCover("limit-raised-between-runs")
	case c2 < c1:
		vCover("limit-lowered-between-runs")
	}
}

// the bound holds while items wait between retry attempts (virtual clock): an item sleeping in its
// retry wait, of ANY length, does not entitle the batch to more than c executions in flight — every
// execution takes (symbolic) time, so whatever was started during the wait may still be running
// when the wait ends
func VH_C08_retryWait() {
	vUnwind(24)
	m := &bMon{}
	m.n, m.c, m.ctx = vParam("n", 3), vParam("c", 2), vNewCtx()
	m.firstFail, m.cancelAt = -1, -1
	w := vNondet[time.Duration]("w")
	vAssume(w > 0 && w <= 1<<40)
	d := vNondet[time.Duration]("execDur")
	vAssume(d > 0 && d <= 1<<40)
	attempts := [bMax]int{}
	exec := func(ctx context.Context, item Result) (Result, error) {
		k := bIndex(item)
		fail := false
		vMonC(1, func() {
			attempts[k]++
			m.inflight++
			vAssert(m.inflight <= m.c, "never-more-than-c-executions-in-flight")
			fail = k == 0 && attempts[k] == 1
		})
		if !fail {
			time.Sleep(d)
		}
		vMonC(2, func() { m.inflight-- })
		if fail {
			vCover("item-waits-before-its-retry")
			return Result{}, vNewErr()
		}
		return item, nil
	}
	b := bNode(m, exec).WithMaxRetries(2).WithWait(w)
	_, err := Run(m.ctx, b, NewSharedStore())
	vAssert(err == nil && m.posts == 1, "batch-with-retry-waits-completes")
	vCover("retry-wait-bound")
}

// a sequential batch is sequential wherever it runs: a concurrency-0 batch node run (with the
// context its caller was given) from inside an item of a CONCURRENT batch still executes its items
// strictly one at a time, in item order
func VH_C08_nestedSeq() {
	vUnwind(24)
	inflight := [2]int{}
	next := [2]int{}
	outerExec := func(ctx context.Context, item Result) (Result, error) {
		o := bIndex(item)
		inner := NewBatchNode().WithBatchConcurrency(0).
			WithPrepFunc(func(ctx context.Context, s *SharedStore) ([]Result, error) { return bItems(2), nil }).
			WithExecFunc(func(ctx context.Context, it Result) (Result, error) {
				k := bIndex(it)
				vMonC(1, func() {
					inflight[o]++
					vAssert(inflight[o] == 1, "sequential-one-at-a-time")
					vAssert(k == next[o], "sequential-in-item-order")
					next[o]++
				})
				vMonC(2, func() { inflight[o]-- })
				return it, nil
			})
		_, err := Run(ctx, inner, NewSharedStore())
		return item, err
	}
	outer := NewBatchNode().WithBatchConcurrency(2).
		WithPrepFunc(func(ctx context.Context, s *SharedStore) ([]Result, error) { return bItems(vParam("outer", 1)), nil }).
		WithExecFunc(outerExec)
	_, err := Run(vNewCtx(), outer, NewSharedStore())
	vAssert(err == nil, "c-mutually-dependent-items-complete")
	vCover("sequential-batch-nested-in-a-concurrent-one")
}

// work conservation: with two workers, item 0 blocks until the LAST item has started while the items
// in between return at once - the worker that becomes free picks the last item up, so the two
// mutually dependent items (first and last) meet
func VH_C08_firstAndLast() {
	vUnwind(24)
	n := 3 + vChoice("extra", vParam("extra", 2))
	lastStarted := false
	m := &bMon{}
	m.n, m.c, m.ctx = n, 2, vNewCtx()
	m.firstFail, m.cancelAt = -1, -1
	m.stop = vNondet[bool]("stop")
	exec := func(ctx context.Context, item Result) (Result, error) {
		k := bIndex(item)
		if k == n-1 {
			vMonC(1, func() { lastStarted = true })
		}
		if k == 0 {
			vBlockUntil(func() bool { return lastStarted })
		}
		return item, nil
	}
	b := bNode(m, exec)
	_, err := Run(m.ctx, b, NewSharedStore())
	vAssert(err == nil && m.posts == 1, "c-mutually-dependent-items-complete")
	vCover("first-and-last-meet")
}
