//go:build verif

package flyt

import (
	"context"
	"errors"
	"time"
)

// C11 — cancelling a batch stops new items and never hangs or fakes success.

func VH_C11_batch() {
	vUnwind(24)
	m := &bMon{}
	bConfig(m)
	m.stop = vNondet[bool]("stop")
	maxN := vParam("N", 1)
	N := vNondet[int]("N")
	vAssume(1 <= N && N <= maxN)
	N = vConcrete(N)
	pre := vNondet[bool]("cancelBeforeRun")
	if pre {
		m.ctx.cancel(vNondet[bool]("deadlineKind"))
		m.cancelled = true
		m.cancelThr = -1
		vCover("cancel-before-run")
	}
	attempts := [bMax]int{}
	exec := func(ctx context.Context, item Result) (Result, error) {
		k := bIndex(item)
		var res Result
		var err error
		doCancel := false
		tid := vThreadID()
		vMon(func() {
			m.started[k]++
			m.finished[k]++
			attempts[k]++
			if m.cancelled {
				// an exec (item or retry attempt) that starts after the cancellation event
				ti := m.threadIndex(tid)
				m.startsAfterCancel[ti]++
				if m.c <= 0 || tid == m.cancelThr || m.cancelThr == -1 {
					vAssert(false, "no-item-or-attempt-starts-after-cancellation-on-a-thread-that-observed-it")
				} else {
					// another worker may have committed to one item before the cancellation landed
					vAssert(m.startsAfterCancel[ti] <= 1, "at-most-one-already-committed-item-per-other-worker")
					vCover("other-worker-committed")
				}
			}
			if !m.cancelled && !m.cancelling && vNondetK[bool]("cancelHere", k*10+attempts[k]) {
				doCancel = true
				m.cancelling = true
			}
			m.nstarts++
			if vNondetK[bool]("fail", k*10+attempts[k]) {
				m.failed[k] = true
				m.errTok[k] = &vError{id: 500 + k}
				err = m.errTok[k]
			} else {
				m.failed[k] = false
				m.outTok[k] = &vTok{id: 700 + k}
				res = NewResult(m.outTok[k])
			}
		})
		if doCancel {
			// the cancellation event itself, then (only afterwards) the monitor learns about it:
			// starts that slip in between are not counted, so the bound below is sound on every schedule
			m.ctx.cancel(false)
			vMon(func() {
				m.cancelled = true
				m.cancelThr = tid
				vCover("cancel-inside-exec")
			})
			if vParam("slowAfterCancel", 0) > 0 && vNondet[bool]("execKeepsWorkingAfterTheCancel") {
				// an exec that does not watch its context goes on for a (virtual) second: the batch
				// still settles every item before post
				vCover("exec-keeps-working-after-the-cancel")
				time.Sleep(time.Second)
			}
		}
		return res, err
	}
	b := bNode(m, exec).WithMaxRetries(N)
	if vNondet[bool]("swallowingFallback") {
		// a custom fallback that recovers every failure with a default value: what it is given is the
		// business of C07; here it must not turn items that never ran into successes
		vCover("custom-fallback-that-recovers")
		WithExecFallbackFunc(func(p any, err error) (any, error) { return &vTok{id: 4242}, nil }).apply(b.CustomNode)
	}
	_, err := Run(m.ctx, b, NewSharedStore())
	// the run terminated (a hang is reported by the engine as a deadlock on that schedule)
	if err != nil {
		vCover("run-returns-error")
		vAssert(m.cancelled && errors.Is(err, m.ctx.Err()), "error-matches-the-contexts-error")
		return
	}
	vAssert(m.posts == 1 && len(m.postRes) == m.n, "otherwise-post-is-called-exactly-once")
	if m.posts != 1 || len(m.postRes) != m.n {
		return
	}
	for i := 0; i < m.n; i++ {
		vSig("stop", b2i(m.stop))
		vSig("conc", b2i(m.c > 0))
		if m.started[i] == 0 {
			vCover("unexecuted-item")
			vAssert(m.postRes[i].IsError(), "unexecuted-item-carries-an-error")
		}
	}
	if pre {
		vAssert(m.nstarts == 0, "pre-cancelled-batch-starts-no-item")
	}
	if m.stop {
		vCover("stop")
	} else {
		vCover("continue")
	}
}

// cancellation BEFORE the run, with every kind of context (the harness's own, context.WithCancel,
// context.WithCancelCause with a custom cause): no item starts, and either the error matches the
// context's error (ctx.Err(), whatever the cause) or post is called once with an error in every slot
func VH_C11_preCancelled() {
	vUnwind(12)
	ctx := vNewRunCtx("run")
	ctx.cancel(vNondet[bool]("deadlineKind"))
	n := vChoice("n", 3)
	starts, posts := 0, 0
	var res []Result
	b := NewBatchNode().WithBatchConcurrency(vChoice("concurrency", 2)).WithBatchErrorHandling(vNondet[bool]("continue")).
		WithPrepFunc(func(ctx context.Context, s *SharedStore) ([]Result, error) { return bItems(n), nil }).
		WithExecFunc(func(ctx context.Context, it Result) (Result, error) {
			vMon(func() { starts++ })
			return it, nil
		}).
		WithPostFunc(func(ctx context.Context, s *SharedStore, items, results []Result) (Action, error) {
			vMon(func() { posts++; res = results })
			return "done", nil
		})
	_, err := Run(ctx, b, NewSharedStore())
	vAssert(starts == 0, "pre-cancelled-batch-starts-no-item")
	vCover("pre-cancelled-run-ended") // either alternative of the property is fine: which one is taken is not required
	if err != nil {
		vCover("run-returns-error")
		vAssert(errors.Is(err, ctx.Err()), "error-matches-the-contexts-error")
		return
	}
	vCover("post-called")
	vAssert(posts == 1 && len(res) == n, "otherwise-post-is-called-exactly-once")
	for i := 0; i < len(res); i++ {
		vAssert(res[i].IsError(), "unexecuted-item-carries-an-error")
	}
}

// cancellation is cancellation, whatever kind of context carries it: a context WITH a (far) deadline
// that is cancelled explicitly while an item sits in its retry wait stops that item — no retry attempt
// starts at a later (virtual) instant than the cancellation
func VH_C11_deadlineCtx() {
	vUnwind(12)
	w, d := vNondet[time.Duration]("w"), vNondet[time.Duration]("cancelAfter")
	vAssume(w > 0 && w <= 1<<40 && d > 0 && d <= 1<<40)
	ctx, cancel := context.WithTimeout(context.Background(), 1<<50)
	defer cancel()
	cancelled := false
	var cancelAt time.Duration
	attempts := [2]int{}
	b := NewBatchNode().WithBatchConcurrency(2).WithMaxRetries(2).WithWait(w).
		WithPrepFunc(func(ctx context.Context, s *SharedStore) ([]Result, error) { return bItems(2), nil }).
		WithExecFunc(func(ctx context.Context, item Result) (Result, error) {
			k := bIndex(item)
			var err error
			vMon(func() {
				attempts[k]++
				if attempts[k] > 1 {
					vAssert(!(cancelled && cancelAt < vNow()), "no-new-retry-attempt-after-cancellation")
					vCover("retry-attempt-observed")
				}
				if k == 0 && attempts[k] == 1 {
					err = vNewErr() // item 0 fails once and goes into its retry wait
				}
			})
			if k == 1 {
				time.Sleep(d) // item 1 cancels the batch some time later
				vMon(func() { cancelled, cancelAt = true, vNow() })
				cancel()
			}
			return item, err
		})
	Run(ctx, b, NewSharedStore())
	vCover("deadline-context-cancelled-explicitly")
}

// a post that honours its context (returns ctx.Err() when the context is done): after a cancellation
// post is called at most once, and the run either returns an error matching the context's error or
// reports what that one post call returned
func VH_C11_postHonoursCtx() {
	vUnwind(12)
	ctx := vNewRunCtx("run")
	pre := vNondet[bool]("cancelBeforeRun")
	if pre {
		ctx.cancel(false)
	}
	posts := 0
	b := NewBatchNode().WithBatchConcurrency(vChoice("concurrency", 2)).WithBatchErrorHandling(vNondet[bool]("continue")).
		WithPrepFunc(func(ctx context.Context, s *SharedStore) ([]Result, error) { return bItems(2), nil }).
		WithExecFunc(func(c context.Context, it Result) (Result, error) {
			if !pre && bIndex(it) == 0 {
				ctx.cancel(false)
			}
			return it, nil
		}).
		WithPostFunc(func(c context.Context, s *SharedStore, items, results []Result) (Action, error) {
			vMon(func() { posts++ })
			if err := c.Err(); err != nil {
				return "", err
			}
			return "done", nil
		})
	_, err := Run(ctx, b, NewSharedStore())
	vAssert(posts <= 1, "otherwise-post-is-called-exactly-once")
	if err != nil {
		vCover("run-returns-error")
		vAssert(errors.Is(err, ctx.Err()), "error-matches-the-contexts-error")
	} else {
		vAssert(posts == 1, "otherwise-post-is-called-exactly-once")
	}
	vCover("post-honours-its-context")
}
