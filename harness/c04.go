//go:build verif

package flyt

import (
	"context"
	"errors"
	"fmt"
)

// C04 — errors are transparent and flows are fail-stop.

type c04Mon struct {
	dead   bool  // a callback has returned the error that must end the run
	cause  error // the sentinel underneath (errors.Is target)
	exact  error // the exact error value the callback returned
	form   int
	code   int
	calls  int
	plain  bool // only plain sentinel errors (keeps a preparatory run cheap)
}

type c04SliceErr []string

func (e c04SliceErr) Error() string { return "validation failed" }

// mkErr builds an error in a symbolic form and records it as the ending cause.
func (m *c04Mon) end() error {
	m.dead = true
	if !m.plain {
		m.form = vChoice("errForm", 5)
	}
	switch m.form {
	case 4:
		// a custom error type that is not comparable (a slice of messages, as validators return):
		// errors.As must still recover it
		e := c04SliceErr{"field a", "field b"}
		m.cause = e
		m.exact = e
	case 0:
		m.cause = vNewErr()
		m.exact = m.cause
	case 1:
		m.cause = vNewErr()
		m.exact = fmt.Errorf("callback context: %w", m.cause)
	case 3:
		// the user's own error wraps a context error although the run's context is alive
		m.cause = context.DeadlineExceeded
		m.exact = fmt.Errorf("upstream call timed out: %w", context.DeadlineExceeded)
	default:
		m.code = vNondet[int]("errCode")
		e := vCustomErr{code: m.code}
		m.cause = e
		m.exact = e
	}
	return m.exact
}

func (m *c04Mon) enter() {
	vAssert(!m.dead, "no-callback-after-the-ending-error")
	m.calls++
}

func (m *c04Mon) finish(err error) {
	vLog("calls", m.calls)
	if !m.dead {
		vCover("all-ok")
		vAssert(err == nil, "nil-error-when-every-phase-succeeded")
		return
	}
	vAssert(err != nil, "non-nil-error-when-a-phase-failed")
	if err == nil {
		return
	}
	if m.form != 4 { // errors.Is never matches a non-comparable target: errors.As is the way to it
		vAssert(errors.Is(err, m.exact), "is-the-exact-error-value-the-callback-returned")
	}
	switch m.form {
	case 4:
		vCover("form-non-comparable-type")
		var target c04SliceErr
		ok := errors.As(err, &target)
		vAssert(ok && len(target) == 2, "as-custom-type")
	case 0:
		vCover("form-sentinel")
		vAssert(errors.Is(err, m.cause), "is-cause")
	case 1, 3:
		vCover("form-wrapped")
		vAssert(errors.Is(err, m.cause), "is-cause-through-user-wrapping")
	default:
		vCover("form-custom-type")
		var target vCustomErr
		ok := errors.As(err, &target)
		vAssert(ok, "as-custom-type")
		vAssert(!ok || target.code == m.code, "as-yields-that-value")
	}
}

// probe node: budget N (1..2), own fallback; every callback may fail
type c04Probe struct {
	*BaseNode
	m      *c04Mon
	budget int
	execs  int
	act    Action
	noFb   bool
}

func (n *c04Probe) Prep(ctx context.Context, s *SharedStore) (any, error) {
	n.m.enter()
	if vNondet[bool]("prepFail") {
		vCover("fail-prep")
		return nil, n.m.end()
	}
	return nil, nil
}

func (n *c04Probe) Exec(ctx context.Context, p any) (any, error) {
	n.m.enter()
	n.execs++
	if vNondet[bool]("execFail") {
		if n.noFb && n.execs == n.budget {
			// BaseNode's default fallback hands the last error back: it ends the run
			vCover("fail-exec-no-fallback")
			return nil, n.m.end()
		}
		return nil, vNewErr()
	}
	if n.execs > 1 {
		vCover("fail-exec-then-ok")
	}
	return nil, nil
}

func (n *c04Probe) ExecFallback(p any, err error) (any, error) {
	if n.noFb {
		return n.BaseNode.ExecFallback(p, err)
	}
	n.m.enter()
	if vNondet[bool]("fbFail") {
		vCover("fail-fallback")
		return nil, n.m.end()
	}
	return nil, nil
}

func (n *c04Probe) Post(ctx context.Context, s *SharedStore, p, e any) (Action, error) {
	n.m.enter()
	if vNondet[bool]("postFail") {
		vCover("fail-post")
		return n.act, n.m.end()
	}
	return n.act, nil
}

func c04NewProbe(m *c04Mon, act Action) *c04Probe {
	maxN := vParam("N", 2)
	N := vNondet[int]("N")
	vAssume(1 <= N && N <= maxN)
	return &c04Probe{BaseNode: NewBaseNode(WithMaxRetries(N)), m: m, budget: N, act: act, noFb: vNondet[bool]("noFb")}
}

func VH_C04_single() {
	vUnwind(6)
	m := &c04Mon{}
	n := c04NewProbe(m, "x")
	_, err := Run(vNewCtx(), n, NewSharedStore())
	m.finish(err)
}

func VH_C04_linear() {
	vUnwind(6)
	m := &c04Mon{}
	k := vParam("nodes", 3)
	nodes := make([]*c04Probe, k)
	for i := range nodes {
		nodes[i] = c04NewProbe(m, "next")
	}
	flow := NewFlow(nodes[0])
	if vNondet[bool]("wiredDownstreamFirst") {
		// the order of the Connect calls is immaterial: a chain declared from its end is the same chain
		vCover("wired-downstream-first")
		for i := k - 2; i >= 0; i-- {
			flow.Connect(nodes[i], "next", nodes[i+1])
		}
	} else {
		for i := 0; i+1 < k; i++ {
			flow.Connect(nodes[i], "next", nodes[i+1])
		}
	}
	// ordinary action labels that merely SOUND like error handling are just labels: a failing node
	// ends the run, whatever transitions it has
	sink := c04NewProbe(m, "next")
	for i := 0; i < k; i++ {
		flow.Connect(nodes[i], "error", sink).Connect(nodes[i], "fail", sink).Connect(nodes[i], "retry", nodes[i])
	}
	err := flow.Run(vNewCtx(), NewSharedStore())
	vAssert(sink.execs == 0, "no-callback-after-the-ending-error")
	if m.dead && m.calls > 4 {
		vCover("fail-in-later-node")
	}
	m.finish(err)
}

// nested: outer(p0 -> inner(p1 -> p2) -> p3), optionally one level deeper
func VH_C04_nested() {
	vUnwind(6)
	m := &c04Mon{}
	depth := vParam("depth", 2)
	p0 := c04NewProbe(m, "next")
	p3 := c04NewProbe(m, "next")
	// innermost chain
	a := c04NewProbe(m, "next")
	b := c04NewProbe(m, "next")
	var inner Node
	f := NewFlow(a)
	f.Connect(a, "next", b)
	inner = f
	for d := 2; d < depth; d++ {
		// wrap: a flow whose only node is the previous flow
		w := NewFlow(inner)
		inner = w
	}
	outer := NewFlow(p0)
	outer.Connect(p0, "next", inner)
	outer.Connect(inner, "next", p3)
	err := outer.Run(vNewCtx(), NewSharedStore())
	if m.dead && a.execs > 0 && p3.execs == 0 {
		vCover("fail-inside-nested-flow")
	}
	if !m.dead {
		vAssert(p3.execs > 0, "outer-continues-after-inner-flow")
	}
	m.finish(err)
}

// a batch node inside a flow: its prep and post are the phases on the path
func VH_C04_batch() {
	vUnwind(6)
	m := &c04Mon{}
	p0 := c04NewProbe(m, "next")
	b := NewBatchNode().
		WithPrepFunc(func(ctx context.Context, s *SharedStore) ([]Result, error) {
			m.enter()
			if vNondet[bool]("bprepFail") {
				vCover("batch-prep-fail")
				return nil, m.end()
			}
			return []Result{NewResult(1), NewResult(2)}, nil
		}).
		WithExecFunc(func(ctx context.Context, item Result) (Result, error) {
			m.enter()
			if vNondet[bool]("itemFail") {
				return Result{}, vNewErr() // item failures are data, not run failures
			}
			return item, nil
		}).
		WithPostFunc(func(ctx context.Context, s *SharedStore, items, results []Result) (Action, error) {
			m.enter()
			if vNondet[bool]("bpostFail") {
				vCover("batch-post-fail")
				return "next", m.end()
			}
			return "next", nil
		})
	p2 := c04NewProbe(m, "next")
	flow := NewFlow(p0)
	flow.Connect(p0, "next", b)
	flow.Connect(b, "next", p2)
	err := flow.Run(vNewCtx(), NewSharedStore())
	m.finish(err)
}

// the same flow object run twice (a server handles many requests with one flow): the second run's
// verdict depends on the second run's phases only — whatever way the first run ended
func VH_C04_rerun() {
	vUnwind(6)
	m := &c04Mon{plain: true}
	a, b := c04NewProbe(m, "next"), c04NewProbe(m, "next")
	var flow *Flow
	if vNondet[bool]("nested") {
		vCover("rerun-nested")
		inner := NewFlow(a)
		inner.Connect(a, "next", b)
		flow = NewFlow(inner)
	} else {
		flow = NewFlow(a)
		flow.Connect(a, "next", b)
	}
	err1 := flow.Run(vNewCtx(), NewSharedStore())
	firstFailed := m.dead
	vAssume((err1 != nil) == firstFailed) // the first run's own verdict is the business of the other harnesses
	*m = c04Mon{}
	a.execs, b.execs = 0, 0
	err := flow.Run(vNewCtx(), NewSharedStore())
	if firstFailed {
		vCover("second-run-after-a-failed-run")
	} else {
		vCover("second-run-after-a-successful-run")
	}
	m.finish(err)
}

// function-style nodes: a Result-style (or Any-style) exec callback that fails may hand back any
// value next to its error — a zero Result, a value Result, an error Result carrying the same error —
// the run fails all the same, transparently, and nothing runs afterwards
func VH_C04_funcNode() {
	vUnwind(6)
	m := &c04Mon{}
	shape := vChoice("failingExecReturns", 4)
	resultStyle := vNondet[bool]("resultStyle")
	posts, later := 0, 0
	n := NewNode(WithPostFuncAny(func(ctx context.Context, s *SharedStore, p, e any) (Action, error) {
		m.enter()
		posts++
		return "next", nil
	}))
	if resultStyle {
		vCover("result-style-exec")
		n.WithExecFunc(func(ctx context.Context, p Result) (Result, error) {
			m.enter()
			err := m.end()
			switch shape {
			case 0:
				return Result{}, err
			case 1:
				return NewResult(5), err
			case 2:
				vCover("error-result-next-to-the-error")
				return NewErrorResult(err), err
			default:
				return NewErrorResult(vNewErr()), err // a different error inside the Result: the returned error counts
			}
		})
	} else {
		n.WithExecFuncAny(func(ctx context.Context, p any) (any, error) {
			m.enter()
			err := m.end()
			switch shape {
			case 0:
				return nil, err
			case 1:
				return 5, err
			default:
				return NewErrorResult(err), err
			}
		})
	}
	after := &vSimpleNode{act: "end"}
	flow := NewFlow(n)
	flow.Connect(n, "next", after)
	var err error
	if vNondet[bool]("nested") {
		outer := NewFlow(flow)
		err = outer.Run(vNewCtx(), NewSharedStore())
	} else {
		err = flow.Run(vNewCtx(), NewSharedStore())
	}
	later = after.visits
	vAssert(posts == 0 && later == 0, "no-callback-after-the-ending-error")
	m.finish(err)
}

// a node may implement Node and FallbackNode WITHOUT being retryable (no BaseNode, no retry
// settings): one attempt, then its fallback — whose outcome decides whether the run fails
type c04PlainFb struct {
	m     *c04Mon
	posts int
	fbs   int
}

func (n *c04PlainFb) Prep(ctx context.Context, s *SharedStore) (any, error) { n.m.enter(); return nil, nil }
func (n *c04PlainFb) Exec(ctx context.Context, p any) (any, error) {
	n.m.enter()
	return nil, vNewErr() // the only attempt fails
}
func (n *c04PlainFb) ExecFallback(p any, err error) (any, error) {
	n.m.enter()
	n.fbs++
	if vNondet[bool]("fbFail") {
		return nil, n.m.end()
	}
	return 1, nil
}
func (n *c04PlainFb) Post(ctx context.Context, s *SharedStore, p, e any) (Action, error) {
	n.m.enter()
	n.posts++
	return "next", nil
}

func VH_C04_plainFallback() {
	vUnwind(6)
	m := &c04Mon{}
	n := &c04PlainFb{m: m}
	var err error
	if vNondet[bool]("inFlow") {
		after := &vSimpleNode{act: "end"}
		f := NewFlow(n)
		f.Connect(n, "next", after)
		err = f.Run(vNewCtx(), NewSharedStore())
		if !m.dead {
			vAssert(after.visits == 1, "outer-continues-after-inner-flow")
		}
	} else {
		_, err = Run(vNewCtx(), n, NewSharedStore())
	}
	vAssert(n.fbs == 1, "non-nil-error-when-a-phase-failed") // the fallback is part of the exec phase of every FallbackNode
	vCover("plain-node-with-fallback")
	m.finish(err)
}
