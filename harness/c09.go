//go:build verif

package flyt

import (
	"context"
	"fmt"
)

// C09 — stop-on-error halts the batch; unprocessed items are never reported as successes.

func c09Exec(m *bMon) func(ctx context.Context, item Result) (Result, error) {
	return func(ctx context.Context, item Result) (Result, error) {
		k := bIndex(item)
		var res Result
		var err error
		vMon(func() {
			tid := vThreadID()
			m.started[k]++
			m.finished[k]++
			m.thread[k] = tid
			if m.nstarts < len(m.order) {
				m.order[m.nstarts] = k
			}
			if m.stop && m.firstFail >= 0 && tid == m.failThr {
				// (i) the thread that observed the failure starts nothing more
				vAssert(false, "failing-thread-starts-no-further-item")
			}
			m.nstarts++
			fail := vNondetK[bool]("fail", k)
			m.failed[k] = fail
			if fail {
				if m.firstFail < 0 {
					m.firstFail = m.nstarts - 1
					m.failThr = tid
				}
				m.errTok[k] = &vError{id: 500 + k}
				switch m.errForm {
				// the item's own inner timeout / cancelled sub-call while the batch context is alive:
				// an item failure like any other
				case 1:
					m.errTok[k] = fmt.Errorf("inner call: %w", context.DeadlineExceeded)
					vCover("item-error-wraps-a-context-error")
				case 2:
					m.errTok[k] = fmt.Errorf("inner call: %w", context.Canceled)
					vCover("item-error-wraps-a-context-error")
				}
				err = m.errTok[k]
			} else {
				m.outTok[k] = &vTok{id: 700 + k}
				res = NewResult(m.outTok[k])
			}
		})
		return res, err
	}
}

func VH_C09_batch() {
	vUnwind(24)
	m := &bMon{}
	bConfig(m)
	m.stop = vNondet[bool]("stop")
	// one error form for all failing items of the run (3 = plain errors + echoing fallback); the
	// all-schedules instance with two workers runs with plain errors only (param forms=1)
	m.errForm = vChoice("errForm", vParam("forms", 4))
	b := bNode(m, c09Exec(m))
	if m.errForm == 3 {
		// a custom fallback that gives up like the default one but hands its input back next to the
		// error (the input of a batch item's fallback is the item, a Result): still a failed item
		vCover("fallback-echoes-the-item-with-the-error")
		WithExecFallbackFunc(func(p any, err error) (any, error) { return p, err }).apply(b.CustomNode)
	}
	_, err := Run(m.ctx, b, NewSharedStore())
	if err != nil || m.posts != 1 || len(m.postRes) != m.n {
		return // post's calling convention is C06's business
	}
	vCover("ran")
	skipped := 0
	for i := 0; i < m.n; i++ {
		r := m.postRes[i]
		vSig("stop", b2i(m.stop))
		vSig("conc", b2i(m.c > 0))
		if m.started[i] == 0 {
			skipped++
			// (ii) an item whose processing never ran is never presented as a success
			vAssert(r.IsError(), "unexecuted-item-is-not-reported-as-success")
		} else if m.failed[i] {
			vAssert(r.IsError() && r.Error() == m.errTok[i], "executed-items-slot-is-its-real-outcome")
		} else {
			vAssert(!r.IsError() && vSame(r.Value(), m.outTok[i]), "executed-items-slot-is-its-real-outcome")
		}
	}
	if m.stop {
		vCover("stop")
		if m.firstFail >= 0 && m.c <= 1 {
			// sequential / one worker: nothing after the first failing item runs at all
			vAssert(m.nstarts == m.firstFail+1, "sequential-stop-nothing-runs-after-the-first-failure")
			if skipped > 0 {
				vCover("items-skipped")
			}
		}
		if m.firstFail >= 0 && m.c > 1 {
			vCover("stop-concurrent-with-failure")
		}
	} else {
		vCover("continue")
	}
}

// the settings that count are those in force when the run starts: a node that has already run a
// batch with c1 workers and is then set to one worker (or to sequential execution) and stop mode
// through its builder stops like a freshly built one — nothing after the first failing item runs
func VH_C09_rerun() {
	vUnwind(24)
	n := vParam("n", 3)
	c1 := 1 + vChoice("c1", vParam("c", 2)) // 1..c
	c2 := vChoice("c2", 2)                  // 0 (sequential) or 1 (one worker)
	failAt := vChoice("failAt", n-1)        // an item that has successors
	phase := 1
	started := make([]int, n)
	posts := 0
	b := NewBatchNode().WithBatchConcurrency(c1).WithBatchErrorHandling(true).
		WithPrepFunc(func(ctx context.Context, s *SharedStore) ([]Result, error) {
			if phase == 1 {
				return bItems(c1), nil // the first run only has to get every worker going
			}
			return bItems(n), nil
		}).
		WithExecFunc(func(ctx context.Context, item Result) (Result, error) {
			k := bIndex(item)
			var err error
			vMon(func() {
				if phase == 2 {
					started[k]++
					if k == failAt {
						err = vNewErr()
					}
				}
			})
			return item, err
		}).
		WithPostFunc(func(ctx context.Context, s *SharedStore, items, results []Result) (Action, error) {
			vMon(func() { posts++ })
			return "done", nil
		})
	if _, err := Run(vNewCtx(), b, NewSharedStore()); err != nil || posts != 1 {
		return
	}
	phase = 2
	b.WithBatchConcurrency(c2).WithBatchErrorHandling(false)
	if _, err := Run(vNewCtx(), b, NewSharedStore()); err != nil || posts != 2 {
		return
	}
	for i := 0; i < n; i++ {
		if i <= failAt {
			vAssert(started[i] == 1, "sequential-stop-nothing-runs-after-the-first-failure")
		} else {
			vAssert(started[i] == 0, "sequential-stop-nothing-runs-after-the-first-failure")
		}
	}
	vCover("stop-after-reconfiguration")
}
