//go:build verif

package flyt

import (
	"context"
	"fmt"
)

// C18 — a successful run never yields the empty action, for any node kind.

func c18Check(postAction, act Action, err error) {
	if err != nil {
		return // only successful runs are this property's business
	}
	vCover("run-succeeded")
	vAssert(act != "", "successful-run-never-yields-empty-action")
	if c18OnlyNonEmpty {
		return // whether this kind's post function is consulted at all is not this property's business
	}
	if postAction == "" {
		vCover("post-empty")
		vAssert(act == DefaultAction, "empty-action-reported-as-default")
	} else {
		if postAction == DefaultAction {
			vCover("post-default")
		} else {
			vCover("post-custom")
		}
		vAssert(act == postAction, "non-empty-action-reported-unchanged")
	}
}

type c18Struct struct {
	*BaseNode
	act Action
}

// a node whose every attempt fails and whose fallback recovers
type c18Recovering struct {
	*BaseNode
	act Action
}

func (n *c18Recovering) Exec(ctx context.Context, p any) (any, error) { return nil, vNewErr() }
func (n *c18Recovering) ExecFallback(p any, err error) (any, error)   { return 1, nil }
func (n *c18Recovering) Post(ctx context.Context, s *SharedStore, p, e any) (Action, error) {
	return n.act, nil
}

// a node whose exec payload is itself of type Action
type c18ActionPayload struct {
	*BaseNode
	act, payload Action
}

func (n *c18ActionPayload) Exec(ctx context.Context, p any) (any, error) { return n.payload, nil }
func (n *c18ActionPayload) Post(ctx context.Context, s *SharedStore, p, e any) (Action, error) {
	return n.act, nil
}

func (n *c18Struct) Post(ctx context.Context, s *SharedStore, p, e any) (Action, error) {
	return n.act, nil
}

func c18Batch(n, c int, stop bool, act Action) *BatchNodeBuilder {
	b := NewBatchNode().
		WithBatchConcurrency(c).
		WithBatchErrorHandling(!stop).
		WithPrepFunc(func(ctx context.Context, s *SharedStore) ([]Result, error) {
			items := make([]Result, n)
			for i := range items {
				items[i] = NewResult(i)
			}
			return items, nil
		}).
		WithExecFunc(func(ctx context.Context, item Result) (Result, error) { return item, nil }).
		WithPostFunc(func(ctx context.Context, s *SharedStore, items, results []Result) (Action, error) {
			return act, nil
		})
	return b
}

var c18OnlyNonEmpty bool

// c18Node builds the node kind under test (forks on the kind; the action stays symbolic)
func c18Node(act Action) Node {
	kinds := 17
	switch vChoice("kind", kinds) {
	case 16:
		// a flow used as a node that ends because its last node's action is connected to nil
		vCover("kind-flow-ending-on-a-nil-connection")
		inner := &vSimpleNode{act: act}
		f := NewFlow(inner)
		f.Connect(inner, DefaultAction, nil).Connect(inner, act, nil)
		return f
	case 15:
		// a post that FAILS — with an error that wraps a context error although the run's context is
		// alive (its own inner timeout): the run fails; if it is reported as a success, then not with
		// the empty action
		vCover("kind-post-fails-with-context-looking-error")
		c18OnlyNonEmpty = true
		return NewNode().WithPostFuncAny(func(ctx context.Context, s *SharedStore, p, e any) (Action, error) {
			if vNondet[bool]("deadlineKind") {
				return act, fmt.Errorf("save result: %w", context.DeadlineExceeded)
			}
			return act, fmt.Errorf("save result: %w", context.Canceled)
		})
	case 14:
		// a batch node given a plain (non-batch) post function as constructor option and no batch
		// post function: whatever the library makes of that function, a successful run reports a
		// non-empty action
		vCover("kind-batch-with-plain-post-option")
		c18OnlyNonEmpty = true
		return NewBatchNode(
			WithPrepFuncAny(func(ctx context.Context, s *SharedStore) (any, error) { return []any{1, 2}, nil }),
			WithPostFuncAny(func(ctx context.Context, s *SharedStore, p, e any) (Action, error) { return act, nil }))
	case 12:
		// payloads that happen to be of the library's own Action type (any string, also empty) are
		// payloads: only post decides the action
		vCover("kind-func-exec-returns-an-action-value")
		ea := vNondet[Action]("execPayloadAction")
		return NewNode().
			WithExecFuncAny(func(ctx context.Context, p any) (any, error) { return ea, nil }).
			WithPostFuncAny(func(ctx context.Context, s *SharedStore, p, e any) (Action, error) { return act, nil })
	case 13:
		vCover("kind-struct-exec-returns-an-action-value")
		return &c18ActionPayload{BaseNode: NewBaseNode(), act: act, payload: vNondet[Action]("execPayloadAction")}
	case 10:
		vCover("kind-struct-budget<=0")
		b := vNondet[int]("budget")
		vAssume(-2 <= b && b <= 0)
		return &c18Struct{BaseNode: NewBaseNode(WithMaxRetries(b)), act: act}
	case 11:
		vCover("kind-func-budget<=0")
		b := vNondet[int]("budget")
		vAssume(-2 <= b && b <= 0)
		return NewNode(WithMaxRetries(b)).WithPostFuncAny(func(ctx context.Context, s *SharedStore, p, e any) (Action, error) { return act, nil })
	case 8:
		vCover("kind-batch-no-prep-function")
		return NewBatchNode().WithPostFunc(func(ctx context.Context, s *SharedStore, items, results []Result) (Action, error) {
			return act, nil
		})
	case 9:
		vCover("kind-batch-prep-returns-nil")
		return NewBatchNode(WithPrepFuncAny(func(ctx context.Context, s *SharedStore) (any, error) { return nil, nil })).
			WithPostFunc(func(ctx context.Context, s *SharedStore, items, results []Result) (Action, error) {
				return act, nil
			})
	case 6:
		vCover("kind-fallback-recovered")
		return &c18Recovering{BaseNode: NewBaseNode(WithMaxRetries(2)), act: act}
	case 7:
		vCover("kind-func-fallback-recovered")
		return NewNode().
			WithExecFuncAny(func(ctx context.Context, p any) (any, error) { return nil, vNewErr() }).
			WithExecFallbackFunc(func(p any, err error) (any, error) { return 1, nil }).
			WithPostFuncAny(func(ctx context.Context, s *SharedStore, p, e any) (Action, error) { return act, nil })
	case 0:
		vCover("kind-struct")
		return &c18Struct{BaseNode: NewBaseNode(), act: act}
	case 1:
		vCover("kind-plain")
		return &vSimpleNode{act: act}
	case 2:
		vCover("kind-func-result")
		return NewNode(WithPostFunc(func(ctx context.Context, s *SharedStore, p, e Result) (Action, error) { return act, nil }))
	case 3:
		vCover("kind-func-any")
		return NewNode().WithPostFuncAny(func(ctx context.Context, s *SharedStore, p, e any) (Action, error) { return act, nil })
	case 4:
		vCover("kind-flow")
		inner := &vSimpleNode{act: act}
		return NewFlow(inner)
	default:
		vCover("kind-batch")
		maxn := vParam("n", 2)
		n := vNondet[int]("n")
		vAssume(0 <= n && n <= maxn)
		n = vConcrete(n)
		if n == 0 {
			vCover("batch-empty")
		}
		maxc := vParam("c", 1)
		c := vNondet[int]("c")
		vAssume(0 <= c && c <= maxc)
		c = vConcrete(c)
		return c18Batch(n, c, vNondet[bool]("stop"), act)
	}
}

func VH_C18_direct() {
	vUnwind(8)
	act := vNondet[Action]("postAction")
	n := c18Node(act)
	got, err := Run(vNewCtx(), n, NewSharedStore())
	c18Check(act, got, err)
}

// as the first step of a flow whose default edge leads to a probe
func VH_C18_flowDefault() {
	vUnwind(8)
	act := vNondet[Action]("postAction")
	n := c18Node(act)
	after := &vSimpleNode{act: "end"}
	flow := NewFlow(n)
	if vParam("late", 1) > 0 && vNondet[bool]("defaultEdgeAddedAfterAFirstRun") {
		// the flow has already run (with another connection on the node) when the default
		// connection is made: it is followed by the next run all the same
		flow.Connect(n, "other", &vSimpleNode{act: "end"})
		if flow.Run(vNewCtx(), NewSharedStore()) != nil {
			return
		}
		vCover("default-edge-added-after-a-first-run")
	}
	flow.Connect(n, DefaultAction, after)
	err := flow.Run(vNewCtx(), NewSharedStore())
	if err != nil {
		return
	}
	vCover("run-succeeded")
	if act == "" || act == DefaultAction {
		vCover("default-edge-followed")
		vAssert(after.visits == 1, "default-connection-is-followed")
	} else {
		// where any other action leads is the routing property's business (C03), not this one's
		vCover("custom-action")
	}
}

// stateless plain nodes (types without fields, used through pointers - the runtime may give them
// all the same address) are different nodes: a chain of them on the default action is followed link
// by link, whether their post returns "" or "default"
type c18StepA struct{}
type c18StepB struct{}

var c18StepLog *[]int
var c18StepAct Action

func (*c18StepA) Prep(ctx context.Context, s *SharedStore) (any, error) { *c18StepLog = append(*c18StepLog, 1); return nil, nil }
func (*c18StepA) Exec(ctx context.Context, p any) (any, error)          { return nil, nil }
func (*c18StepA) Post(ctx context.Context, s *SharedStore, p, e any) (Action, error) {
	return c18StepAct, nil
}
func (*c18StepB) Prep(ctx context.Context, s *SharedStore) (any, error) { *c18StepLog = append(*c18StepLog, 2); return nil, nil }
func (*c18StepB) Exec(ctx context.Context, p any) (any, error)          { return nil, nil }
func (*c18StepB) Post(ctx context.Context, s *SharedStore, p, e any) (Action, error) {
	return c18StepAct, nil
}

func VH_C18_statelessChain() {
	vUnwind(8)
	var log []int
	c18StepLog = &log
	c18StepAct = ""
	if vNondet[bool]("postReturnsTheDefaultActionItself") {
		c18StepAct = DefaultAction
	}
	a, b := &c18StepA{}, &c18StepB{}
	end := &vSimpleNode{act: "end"}
	flow := NewFlow(a)
	flow.Connect(a, DefaultAction, b)
	if vNondet[bool]("lastLinkToo") {
		flow.Connect(b, DefaultAction, end)
	} else {
		end.visits = 1 // nothing to follow after b
	}
	err := flow.Run(vNewCtx(), NewSharedStore())
	if err != nil {
		return
	}
	vAssert(len(log) == 2 && log[0] == 1 && log[1] == 2 && end.visits == 1, "default-connection-is-followed")
	vCover("stateless-chain")
}
