//go:build verif

package flyt

import "context"

// C06 — batch results correspond positionally to items; post sees all, once.

// exec is one atomic monitor step per item (steps of different items commute): the completion
// order is the order of the framework's own critical sections that write the slots.
func c06Exec(m *bMon) func(ctx context.Context, item Result) (Result, error) {
	return func(ctx context.Context, item Result) (Result, error) {
		k := bIndex(item)
		var res Result
		var err error
		vMonC(1, func() {
			m.started[k]++
			m.finished[k]++
			fail := vNondetK[bool]("fail", k)
			m.failed[k] = fail
			if fail {
				m.errTok[k] = &vError{id: 500 + k}
				err = m.errTok[k]
			} else {
				m.outTok[k] = &vTok{id: 700 + k}
				if m.nilOut {
					m.outTok[k] = nil
				}
				res = NewResult(m.outTok[k])
			}
		})
		return res, err
	}
}

func c06CheckPost(m *bMon) {
	vAssert(m.posts == 1, "post-called-exactly-once")
	if m.posts != 1 {
		return
	}
	vAssert(len(m.postItems) == m.n && len(m.postRes) == m.n, "post-sees-n-items-and-n-results")
	if len(m.postItems) != m.n || len(m.postRes) != m.n {
		return
	}
	mixed, nfail := false, 0
	for i := 0; i < m.n; i++ {
		iv, ok := m.postItems[i].Value().(int)
		vAssert(ok && iv == 100+i, "items-in-the-order-prep-produced-them")
		r := m.postRes[i]
		if m.started[i] == 0 {
			// only stop mode may leave an item unprocessed; its slot is then an error, never another item's outcome
			vAssert(r.IsError(), "slot-of-an-unprocessed-item-is-an-error")
			vCover("stop-skipped")
			continue
		}
		if m.failed[i] {
			nfail++
			vAssert(r.IsError() && r.Error() == m.errTok[i], "slot-i-holds-the-error-of-item-i")
		} else {
			vAssert(!r.IsError() && vSame(r.Value(), m.outTok[i]), "slot-i-holds-the-value-of-item-i")
		}
	}
	if nfail > 0 && nfail < m.n {
		mixed = true
	}
	if mixed {
		vCover("mixed-errors")
	}
}

func VH_C06_batch() {
	vUnwind(24)
	m := &bMon{}
	bConfig(m)
	m.stop = vNondet[bool]("stop")
	m.checkSettled = true
	if !m.stop {
		m.minStarts = 1
	}
	if vParam("nilOutcomes", 1) > 0 && vNondet[bool]("successfulItemsYieldNil") {
		// a processed item whose outcome is a nil value is a success like any other
		vCover("successful-items-yield-nil")
		m.nilOut = true
	}
	if k := vParam("shapes", 1); k > 1 {
		m.anyPrep = vChoice("prepPayloadShape", k)
	}
	b := bNode(m, c06Exec(m))
	_, err := Run(m.ctx, b, NewSharedStore())
	if err != nil {
		return // a failing run is not this property's business
	}
	c06CheckPost(m)
	if m.c > 0 {
		vCover("concurrent")
	} else {
		vCover("sequential")
	}
	if m.n == 0 {
		vCover("empty")
	}
}

// prep value shapes accepted by a batch: []Result, []any, typed slice, single value, nil
func VH_C06_shapes() {
	vUnwind(24)
	shape := vChoice("shape", 5)
	var want int
	seen := [4]bool{}
	nexec := 0
	b := NewBatchNode(WithPrepFuncAny(func(ctx context.Context, s *SharedStore) (any, error) {
		switch shape {
		case 0:
			vCover("prep-[]Result")
			want = 2
			return []Result{NewResult(100), NewResult(101)}, nil
		case 1:
			vCover("prep-[]any")
			want = 3
			return []any{100, 101, 102}, nil
		case 2:
			vCover("prep-typed-slice")
			want = 2
			return []int{100, 101}, nil
		case 3:
			vCover("prep-single-value")
			want = 1
			return 100, nil
		default:
			vCover("prep-nil")
			want = 0
			return nil, nil
		}
	}))
	b.WithExecFunc(func(ctx context.Context, item Result) (Result, error) {
		k := bIndex(item)
		seen[k] = true
		nexec++
		return NewResult(200 + k), nil
	})
	posts := 0
	b.WithPostFunc(func(ctx context.Context, s *SharedStore, items, results []Result) (Action, error) {
		posts++
		vAssert(len(items) == want && len(results) == want, "post-sees-n-items-and-n-results")
		for i := 0; i < len(items) && i < len(results); i++ {
			iv, ok := items[i].Value().(int)
			vAssert(ok && iv == 100+i, "items-in-the-order-prep-produced-them")
			rv, rok := results[i].Value().(int)
			vAssert(rok && rv == 200+i, "slot-i-holds-the-value-of-item-i")
		}
		return "done", nil
	})
	_, err := Run(vNewCtx(), b, NewSharedStore())
	vAssert(err != nil || posts == 1, "post-called-exactly-once")
	_ = nexec
}

// under cancellation too, post runs only after every item has been settled: exec is observed in two
// monitor steps, so an item in flight (or a slot written after post) is visible
func VH_C06_cancel() {
	vUnwind(24)
	m := &bMon{}
	bConfig(m)
	vAssume(m.c >= 1 && m.n >= 1)
	m.stop = vNondet[bool]("stop")
	m.checkSettled = true
	exec := func(ctx context.Context, item Result) (Result, error) {
		k := bIndex(item)
		doCancel := false
		vMonC(1, func() {
			m.started[k]++
			m.inflight++
			if !m.cancelling && vNondetK[bool]("cancelHere", k) {
				doCancel, m.cancelling = true, true
			}
		})
		if doCancel {
			m.ctx.cancel(false)
			vCover("cancelled-while-in-flight")
		}
		var res Result
		vMonC(2, func() {
			m.inflight--
			m.finished[k]++
			m.outTok[k] = &vTok{id: 700 + k}
			res = NewResult(m.outTok[k])
		})
		return res, nil
	}
	b := bNode(m, exec)
	_, err := Run(m.ctx, b, NewSharedStore())
	if err != nil {
		return
	}
	vAssert(m.posts == 1 && len(m.postRes) == m.n, "post-called-exactly-once")
	for i := 0; i < m.n && i < len(m.postRes); i++ {
		r := m.postRes[i]
		if m.finished[i] > 0 {
			vAssert(!r.IsError() && vSame(r.Value(), m.outTok[i]), "slot-i-holds-the-value-of-item-i")
		} else {
			vAssert(r.IsError(), "slot-of-an-unprocessed-item-is-an-error")
		}
	}
}

// the same batch node run twice (a batch node in a loop of a flow does that): whatever the first run
// was like — larger, smaller, with failures — the second run's post sees exactly its own n items and
// n results, slot i from item i of THIS run
func VH_C06_rerun() {
	vUnwind(24)
	m := &bMon{}
	bConfig(m)
	vAssume(m.n >= 1)
	// the pooled path multiplies the schedules of both runs: its batches stay at nconc items
	nconc := vParam("nconc", 3)
	vAssume(m.c <= 0 || m.n <= nconc)
	m.stop = vNondet[bool]("stop")
	b := bNode(m, c06Exec(m))
	_, err1 := Run(m.ctx, b, NewSharedStore())
	n1 := m.n
	// second run: fresh observations, its own size (the prep function reads m.n when it is called)
	n2 := vNondet[int]("n2")
	vAssume(0 <= n2 && n2 <= vParam("n", 3) && (m.c <= 0 || n2 <= nconc))
	n2 = vConcrete(n2)
	*m = bMon{n: n2, c: m.c, stop: m.stop, ctx: m.ctx, firstFail: -1, cancelAt: -1, checkSettled: true}
	if !m.stop {
		m.minStarts = 1
	}
	_, err := Run(m.ctx, b, NewSharedStore())
	if err != nil || err1 != nil {
		return
	}
	c06CheckPost(m)
	switch {
	case n2 < n1:
		vCover("second-batch-smaller")
	case n2 > n1:
		vCover("second-batch-larger")
	}
}

// items need not be distinct: with ANY payloads (symbolic ints — equal ones included) every item is
// processed by its own exec call, and slot i holds the outcome of a call made for item i and for no
// other item
func VH_C06_dups() {
	vUnwind(24)
	n := vParam("n", 3)
	c := vNondet[int]("c")
	vAssume(0 <= c && c <= vParam("c", 2))
	c = vConcrete(c)
	var pay [4]int
	for i := 0; i < n; i++ {
		pay[i] = vNondetK[int]("payload", i)
	}
	var callIn [8]int
	var callTok [8]any
	calls := 0
	posts := 0
	var res []Result
	b := NewBatchNode().WithBatchConcurrency(c).
		WithPrepFunc(func(ctx context.Context, s *SharedStore) ([]Result, error) {
			items := make([]Result, n)
			for i := range items {
				items[i] = NewResult(pay[i])
			}
			return items, nil
		}).
		WithExecFunc(func(ctx context.Context, item Result) (Result, error) {
			var tok *vTok
			vMonC(1, func() {
				v, _ := item.Value().(int)
				if calls < len(callIn) {
					callIn[calls] = v
					tok = &vTok{id: 700 + calls}
					callTok[calls] = tok
				}
				calls++
			})
			return NewResult(tok), nil
		}).
		WithPostFunc(func(ctx context.Context, s *SharedStore, items, results []Result) (Action, error) {
			vMon(func() { posts++; res = results })
			return "done", nil
		})
	_, err := Run(vNewCtx(), b, NewSharedStore())
	if err != nil || posts != 1 || len(res) != n {
		return
	}
	vAssert(calls == n, "every-item-gets-its-own-exec-call")
	used := [8]bool{}
	for i := 0; i < n; i++ {
		found := false
		for k := 0; k < calls && k < len(callIn); k++ {
			if !used[k] && vSame(res[i].Value(), callTok[k]) {
				vAssert(callIn[k] == pay[i], "slot-i-holds-the-value-of-item-i")
				used[k], found = true, true
				break
			}
		}
		vAssert(found, "slot-i-is-the-outcome-of-no-other-item")
	}
	if pay[0] == pay[1] {
		vCover("duplicate-items")
	} else {
		vCover("distinct-items")
	}
}

// prep may hand back the very same slice object on every run (a work list kept by the caller) with
// its elements rewritten in between: the run processes what the slice holds NOW
func VH_C06_rerunSameSlice() {
	vUnwind(24)
	c := vChoice("concurrency", 2)
	typed := vNondet[bool]("typedSlice")
	workA := []any{100, 101}
	workT := []int{100, 101}
	var seenItems, seenRes [2]int
	posts := 0
	b := NewBatchNode().WithBatchConcurrency(c)
	WithPrepFuncAny(func(ctx context.Context, s *SharedStore) (any, error) {
		if typed {
			return workT, nil
		}
		return workA, nil
	}).apply(b.CustomNode)
	b.WithExecFunc(func(ctx context.Context, item Result) (Result, error) {
		v, _ := item.Value().(int)
		return NewResult(v + 1000), nil
	}).WithPostFunc(func(ctx context.Context, s *SharedStore, items, results []Result) (Action, error) {
		vMon(func() {
			posts++
			for i := 0; i < 2 && i < len(items) && i < len(results); i++ {
				seenItems[i], _ = items[i].Value().(int)
				seenRes[i], _ = results[i].Value().(int)
			}
		})
		return "done", nil
	})
	_, err1 := Run(vNewCtx(), b, NewSharedStore())
	vAssume(err1 == nil)
	// rewrite the elements in place (swap and change)
	workA[0], workA[1] = 201, 100
	workT[0], workT[1] = 201, 100
	posts = 0
	_, err := Run(vNewCtx(), b, NewSharedStore())
	if err != nil {
		return
	}
	vAssert(posts == 1, "post-called-exactly-once")
	vAssert(seenItems[0] == 201 && seenItems[1] == 100, "items-in-the-order-prep-produced-them")
	vAssert(seenRes[0] == 1201 && seenRes[1] == 1100, "slot-i-holds-the-value-of-item-i")
	vCover("same-slice-rewritten")
}
