//go:build verif

package flyt

import (
	"time"
	"context"
	"fmt"
)

// C07 — batch processes every item exactly once, with per-item retry and fallback (continue mode).

type c07Mon struct {
	bMon
	attempts [bMax]int
	okAt     [bMax]int
	lastErr  [bMax]error
	fbCalls  [bMax]int
	fbMode   [bMax]int // 0 fallback succeeds, 1 fallback fails, 2 fallback succeeds with a nil value
	fbErr    [bMax]error
	fbVal    [bMax]any
}

func VH_C07_batch() {
	vUnwind(24)
	m := &c07Mon{}
	bConfig(&m.bMon)
	m.minStarts = 1
	maxN := vParam("N", 2)
	N := vNondet[int]("N")
	vAssume(1 <= N && N <= maxN)
	N = vConcrete(N)
	explicitContinue := vNondet[bool]("explicitContinue")
	// large instances: only one (symbolic) item may fail, so that size thresholds in the dispatch
	// (chunking, batching of submissions) are reached at an affordable number of paths
	onlyFail := -1
	if vParam("oneFail", 0) > 0 {
		f := vNondet[int]("failingItem")
		vAssume(0 <= f && f < m.n)
		onlyFail = vConcrete(f)
	}
	exec := func(ctx context.Context, item Result) (Result, error) {
		k := bIndex(item)
		var res Result
		var err error
		vMonC(1, func() {
			m.started[k]++
			m.finished[k]++
			m.attempts[k]++
			vAssert(m.okAt[k] == 0, "no-attempt-after-an-items-success")
			vAssert(m.attempts[k] <= N, "item-attempts-within-budget")
			if (onlyFail < 0 || k == onlyFail) && vNondetK[bool]("fail", k*10+m.attempts[k]) {
				m.lastErr[k] = &vError{id: 500 + k*10 + m.attempts[k]}
				if vParam("errForms", 0) > 0 && vNondetK[bool]("ctxLookingError", k*10+m.attempts[k]) {
					// the item's own inner timeout: still just a failed attempt
					m.lastErr[k] = fmt.Errorf("inner call: %w", context.DeadlineExceeded)
					vCover("attempt-error-wraps-a-context-error")
				}
				err = m.lastErr[k]
			} else {
				m.okAt[k] = m.attempts[k]
				m.outTok[k] = &vTok{id: 700 + k}
				res = NewResult(m.outTok[k])
			}
		})
		return res, err
	}
	b := bNode(&m.bMon, exec).WithMaxRetries(N)
	if vParam("anyStyle", 0) > 0 && vNondet[bool]("anyStyleExecWithPartialValues") {
		// the same exec installed Any-style through the builder; a failing attempt hands back a partial
		// value next to its error — a failed attempt all the same
		vCover("any-style-exec-with-partial-values")
		b.WithExecFuncAny(func(ctx context.Context, v any) (any, error) {
			res, err := exec(ctx, NewResult(v))
			if err != nil {
				return &vTok{id: 666}, err
			}
			return res.Value(), nil
		})
	}
	if explicitContinue {
		b.WithBatchErrorHandling(true)
	}
	fb := func(p any, err error) (any, error) {
		r, isRes := p.(Result)
		vAssert(isRes, "fallback-receives-the-item")
		k := bIndex(r)
		var out any
		var ferr error
		vMonC(1, func() {
			m.fbCalls[k]++
			vAssert(m.okAt[k] == 0 && m.attempts[k] == N, "fallback-only-after-the-items-budget-is-exhausted")
			vAssert(err == m.lastErr[k], "fallback-receives-the-items-last-error")
			m.fbMode[k] = vChoice("fbMode", 4)
			if m.fbMode[k] == 1 {
				m.fbErr[k] = &vError{id: 900 + k}
				ferr = m.fbErr[k]
			} else if m.fbMode[k] == 3 {
				// giving up with an error AND a Result-typed value next to it (e.g. the item it was
				// handed): the error is the outcome
				vCover("fb-err-with-a-result-value")
				m.fbErr[k] = &vError{id: 900 + k}
				ferr = m.fbErr[k]
				out = r
			} else if m.fbMode[k] == 2 {
				// swallowing the failure with a nil value is a recovery too (as for a single node)
				vCover("fb-recovers-with-nil")
				m.fbVal[k] = nil
			} else {
				m.fbVal[k] = &vTok{id: 800 + k}
				out = m.fbVal[k]
			}
		})
		return out, ferr
	}
	WithExecFallbackFunc(fb).apply(b.CustomNode)
	act, err := Run(m.ctx, b, NewSharedStore())
	_ = act
	if err != nil || m.posts != 1 || len(m.postRes) != m.n {
		return // post's calling convention is C06's business
	}
	vCover("ran")
	for i := 0; i < m.n; i++ {
		r := m.postRes[i]
		if m.okAt[i] > 0 {
			vAssert(m.attempts[i] == m.okAt[i], "item-stops-at-its-first-success")
			vAssert(m.fbCalls[i] == 0, "no-fallback-after-an-items-success")
			vAssert(!r.IsError() && vSame(r.Value(), m.outTok[i]), "slot-holds-the-items-value")
			if m.okAt[i] > 1 {
				vCover("retry-then-ok")
			}
		} else {
			vAssert(m.attempts[i] == N, "failing-item-gets-exactly-N-attempts")
			vAssert(m.fbCalls[i] == 1, "fallback-exactly-once-per-exhausted-item")
			if m.fbMode[i] != 1 && m.fbMode[i] != 3 {
				vCover("fb-ok")
				vAssert(!r.IsError() && vSame(r.Value(), m.fbVal[i]), "slot-holds-the-fallbacks-value")
			} else {
				vCover("fb-err")
				vAssert(r.IsError() && r.Error() == m.fbErr[i], "slot-holds-the-fallbacks-error")
			}
			if i+1 < m.n && m.okAt[i+1] > 0 {
				vCover("neighbour-unaffected-by-failure")
			}
		}
	}
	if m.c > 0 {
		vCover("concurrent")
	} else {
		vCover("sequential")
	}
}

// the budget that counts is the one configured when the run starts: the same batch node, run once
// and then given another budget through its builder, gives every failing item exactly that many
// attempts in its next run
func VH_C07_reconfigured() {
	vUnwind(24)
	n1, n2 := vNondet[int]("N1"), vNondet[int]("N2")
	maxN := vParam("N", 3)
	vAssume(1 <= n1 && n1 <= maxN && 1 <= n2 && n2 <= maxN)
	n1, n2 = vConcrete(n1), vConcrete(n2)
	attempts := [2]int{}
	var lastErr error
	var handed [][]Result // the result lists handed to post, run by run (post may keep them)
	b := NewBatchNode().WithMaxRetries(n1).WithBatchConcurrency(vChoice("concurrency", 2)).
		WithPrepFunc(func(ctx context.Context, s *SharedStore) ([]Result, error) {
			return []Result{NewResult(100), NewResult(101)}, nil
		}).
		WithExecFunc(func(ctx context.Context, item Result) (Result, error) {
			k := bIndex(item)
			var err error
			vMonC(1, func() {
				attempts[k]++
				if k == 0 {
					lastErr = vNewErr() // item 0 always fails
					err = lastErr
				}
			})
			return item, err
		}).
		WithPostFunc(func(ctx context.Context, s *SharedStore, items, results []Result) (Action, error) {
			vMon(func() { handed = append(handed, results) })
			return "done", nil
		})
	Run(vNewCtx(), b, NewSharedStore())
	vAssert(attempts[0] == n1 && attempts[1] == 1, "failing-item-gets-exactly-N-attempts")
	err1 := lastErr
	b.WithMaxRetries(n2)
	attempts = [2]int{}
	Run(vNewCtx(), b, NewSharedStore())
	vAssert(attempts[0] == n2 && attempts[1] == 1, "failing-item-gets-exactly-N-attempts")
	if n2 > n1 {
		vCover("budget-raised-between-runs")
	} else if n2 < n1 {
		vCover("budget-lowered-between-runs")
	}
	// what the first run handed to post is that run's outcome for good: a later run of the same node
	// does not touch it
	if len(handed) == 2 && len(handed[0]) == 2 && len(handed[1]) == 2 {
		vCover("first-runs-results-inspected-after-the-second-run")
		vAssert(handed[0][0].IsError() && handed[0][0].Error() == err1, "slot-holds-the-error-of-the-items-last-attempt")
		v, _ := handed[0][1].Value().(int)
		vAssert(!handed[0][1].IsError() && v == 101, "slot-holds-the-items-own-outcome")
		vAssert(handed[1][0].IsError() && handed[1][0].Error() == lastErr, "slot-holds-the-error-of-the-items-last-attempt")
	}
}

// "the same treatment as a single node run" includes what an attempt is handed: while the run's
// context is alive, every attempt of every item receives a context that is alive (an exec that
// passes its context on to an HTTP call would otherwise fail on its own)
func VH_C07_attemptContext() {
	vUnwind(24)
	N := 1 + vChoice("N", vParam("N", 2))
	attempts := [2]int{}
	var ctx context.Context = vNewCtx()
	if vNondet[bool]("realContext") {
		c, cancel := context.WithCancel(context.Background())
		defer cancel()
		ctx = c
	}
	b := NewBatchNode().WithMaxRetries(N).WithBatchConcurrency(vChoice("concurrency", 2)).
		WithPrepFunc(func(ctx context.Context, s *SharedStore) ([]Result, error) {
			return []Result{NewResult(100), NewResult(101)}, nil
		}).
		WithExecFunc(func(ctx context.Context, item Result) (Result, error) {
			k := bIndex(item)
			var err error
			live := ctx.Err() == nil
			vMonC(1, func() {
				attempts[k]++
				vAssert(live, "attempt-receives-a-live-context-while-the-run-is-alive")
				if k == 0 {
					err = vNewErr() // item 0 always fails
				}
			})
			return item, err
		})
	if vNondet[bool]("withWait") {
		vCover("attempt-context-after-a-wait")
		b.WithWait(time.Millisecond)
	}
	Run(ctx, b, NewSharedStore())
	vAssert(attempts[0] == N && attempts[1] == 1, "failing-item-gets-exactly-N-attempts")
	vCover("attempt-context")
}

// every element of the list prep produced is an item - also a nil element of a typed slice handed
// over through the any-style prep option: none skipped, slots in prep's order
func VH_C07_typedSliceItems() {
	vUnwind(16)
	a, b := &vTok{id: 1}, &vTok{id: 2}
	items := []*vTok{a, nil, b}
	switch vChoice("nilAt", 4) {
	case 0:
		items = []*vTok{nil, a, b}
	case 2:
		items = []*vTok{a, b, nil}
	case 3:
		items = []*vTok{a, b} // no nil element at all
	}
	n := len(items)
	execs := 0
	var seen []any
	posted := false
	bn := NewBatchNode(
		WithPrepFuncAny(func(ctx context.Context, s *SharedStore) (any, error) { return items, nil }),
		WithExecFuncAny(func(ctx context.Context, it any) (any, error) {
			vMon(func() { execs++; seen = append(seen, it) })
			return it, nil
		})).WithBatchConcurrency(vChoice("concurrency", 2))
	bn.WithPostFunc(func(ctx context.Context, s *SharedStore, its, results []Result) (Action, error) {
		vMon(func() {
			posted = true
			vAssert(len(its) == n && len(results) == n, "every-item-processed-exactly-once")
			for i := 0; i < len(its) && i < n; i++ {
				p, _ := its[i].Value().(*vTok)
				vAssert(p == items[i], "every-item-processed-exactly-once")
			}
		})
		return "done", nil
	})
	_, err := Run(vNewCtx(), bn, NewSharedStore())
	vAssert(err == nil && posted && execs == n, "every-item-processed-exactly-once")
	vCover("typed-slice-items")
}
