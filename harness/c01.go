//go:build verif

package flyt

import (
	"context"
	"time"
)

// C01 — node lifecycle: prep once, exec attempts, post at most once, data threaded.

const (
	c01Init = iota
	c01Prepped
	c01ExecOK
	c01ExecFailed
	c01FbOK
	c01Dead
	c01Posted
)

type c01Mon struct {
	store      *SharedStore
	prepTok    any
	resultTok  any
	fbTok      any
	state      int
	preps      int
	execs      int
	fbs        int
	posts      int
	lastErr    error
	endErr     error
	postAction Action
	budget     int // max attempts allowed for this kind
	hasFb      bool
	ctx        *vCtx
	mayCancel  bool
	cancelled  bool
	maxFails   int  // > 0: at most this many failed attempts (for runs with an unbounded symbolic budget)
	sliceErrs  bool // failing attempts return errors of a non-comparable dynamic type
	errForms   bool // failing attempts return errors in several forms (plain / context-wrapping / typed nil)
}

// maybeCancel: with mayCancel set, the context may be cancelled from inside any callback
func (m *c01Mon) maybeCancel() {
	if m.mayCancel && !m.cancelled && vNondet[bool]("cancelHere") {
		m.ctx.cancel(false)
		m.cancelled = true
	}
}

func (m *c01Mon) prep(s *SharedStore) (any, error) {
	vAssert(m.state == c01Init, "prep-first-and-once")
	vAssert(s == m.store, "prep-gets-the-run-store")
	m.preps++
	m.maybeCancel()
	if vNondet[bool]("prepFail") {
		m.state = c01Dead
		m.endErr = vNewErr()
		return nil, m.endErr
	}
	m.state = c01Prepped
	return m.prepTok, nil
}

func (m *c01Mon) exec(p any) (any, error) {
	vAssert(m.state == c01Prepped || m.state == c01ExecFailed, "exec-only-after-prep-or-failed-attempt")
	vAssert(vSame(p, m.prepTok), "exec-gets-prep-value")
	m.execs++
	m.maybeCancel()
	if (m.maxFails == 0 || m.execs <= m.maxFails) && vNondet[bool]("execFail") {
		m.state = c01ExecFailed
		m.lastErr = vNewErr()
		if m.errForms {
			m.lastErr = vFailure("exec")
		}
		if m.sliceErrs {
			m.lastErr = vSliceErr{"field a", "field b"} // an error value of a non-comparable type
		}
		if vNondet[bool]("execFailWithValue") {
			return &vTok{id: 666}, m.lastErr // a failed attempt's value is not a result
		}
		return nil, m.lastErr
	}
	m.state = c01ExecOK
	m.resultTok = &vTok{id: 100 + m.execs}
	return m.resultTok, nil
}

func (m *c01Mon) fallback(p any, err error) (any, error) {
	vAssert(m.state == c01ExecFailed, "fallback-only-after-failed-attempt")
	m.fbs++
	m.maybeCancel()
	if vNondet[bool]("fbFail") {
		m.state = c01Dead
		m.endErr = vNewErr()
		if vNondet[bool]("fbFailWithValue") {
			return m.fbTok, m.endErr // an error is an error, whatever else is returned
		}
		return nil, m.endErr
	}
	m.state = c01FbOK
	if vNondet[bool]("fbReturnsNil") {
		m.resultTok = nil // recovering with a nil result is a result too
		return nil, nil
	}
	m.resultTok = m.fbTok
	return m.fbTok, nil
}

func (m *c01Mon) post(s *SharedStore, p, e any) (Action, error) {
	vAssert(m.state == c01ExecOK || m.state == c01FbOK, "post-only-after-successful-exec-phase")
	vAssert(s == m.store, "post-gets-the-run-store")
	vAssert(vSame(p, m.prepTok), "post-gets-prep-value")
	vAssert(vSame(e, m.resultTok), "post-gets-that-result")
	m.posts++
	m.maybeCancel()
	if vNondet[bool]("postFail") {
		m.state = c01Dead
		m.endErr = vNewErr()
		return "ignored", m.endErr
	}
	m.state = c01Posted
	m.postAction = vNondet[Action]("postAction")
	return m.postAction, nil
}

func (m *c01Mon) finish(act Action, err error) {
	vLog("preps", m.preps)
	vLog("execs", m.execs)
	vLog("fbs", m.fbs)
	vLog("posts", m.posts)
	vAssert(m.preps == 1, "prep-exactly-once")
	vAssert(m.posts <= 1, "post-at-most-once")
	vAssert((err == nil) == (m.state == c01Posted), "nil-error-iff-post-succeeded")
	// post runs IF the exec phase produced a result without error (cancelled or not)
	vAssert(m.state != c01ExecOK && m.state != c01FbOK, "post-runs-when-the-exec-phase-succeeded")
	if !m.cancelled {
		vAssert(m.state != c01Prepped, "exec-follows-a-successful-prep")
	} else {
		vCover("cancelled-during-the-run")
	}
	if err == nil {
		vCover("run-ok")
		if m.postAction == "" {
			vCover("post-empty-action")
			vAssert(act == DefaultAction, "empty-action-becomes-default")
		} else {
			vAssert(act == m.postAction, "action-is-posts-action")
		}
	} else {
		vAssert(act == "", "error-comes-with-empty-action")
		if m.state == c01ExecFailed && !m.cancelled {
			vCover("all-failed-no-fallback-result")
			vAssert(m.posts == 0, "post-not-called-after-exec-failure")
		}
		if m.state == c01Dead {
			vCover("callback-error-ends-run")
		}
	}
	if m.fbs > 0 {
		vCover("fallback-ran")
	}
	if m.execs > 1 {
		vCover("retried")
	}
}

func c01NewMon(budget int) *c01Mon {
	return &c01Mon{store: NewSharedStore(), prepTok: vPayload("prep"), fbTok: &vTok{id: 999}, budget: budget, ctx: vNewCtx()}
}

func c01Budget() int {
	maxN := vParam("N", 3)
	N := vNondet[int]("N")
	vAssume(1 <= N && N <= maxN)
	vUnwind(maxN + 2)
	return N
}

// (a) struct node embedding *BaseNode, overriding every phase and the fallback
type c01StructNode struct {
	*BaseNode
	m *c01Mon
}

func (n *c01StructNode) Prep(ctx context.Context, s *SharedStore) (any, error) { return n.m.prep(s) }
func (n *c01StructNode) Exec(ctx context.Context, p any) (any, error)          { return n.m.exec(p) }
func (n *c01StructNode) ExecFallback(p any, err error) (any, error)            { return n.m.fallback(p, err) }
func (n *c01StructNode) Post(ctx context.Context, s *SharedStore, p, e any) (Action, error) {
	return n.m.post(s, p, e)
}

func VH_C01_struct() {
	N := c01Budget()
	m := c01NewMon(N)
	n := &c01StructNode{BaseNode: NewBaseNode(WithMaxRetries(N)), m: m}
	act, err := Run(m.ctx, n, m.store)
	m.finish(act, err)
}

// (a') the same with ANY budget >= 1: the budget stays symbolic (no upper bound — the solver decides
// for every budget, including ones near the top of the int range), scripts of at most F failures
func VH_C01_anyBudget() {
	F := vParam("F", 3)
	N := vNondet[int]("N")
	vAssume(N >= 1)
	vUnwind(F + 3)
	m := c01NewMon(0)
	m.maxFails = F
	var n Node
	if vNondet[bool]("functionStyle") {
		vCover("function-style-node")
		n = NewNode(
			WithMaxRetries(N),
			WithPrepFuncAny(func(ctx context.Context, s *SharedStore) (any, error) { return m.prep(s) }),
			WithExecFuncAny(func(ctx context.Context, p any) (any, error) { return m.exec(p) }),
			WithExecFallbackFunc(func(p any, err error) (any, error) { return m.fallback(p, err) }),
			WithPostFuncAny(func(ctx context.Context, s *SharedStore, p, e any) (Action, error) { return m.post(s, p, e) }),
		)
	} else {
		n = &c01StructNode{BaseNode: NewBaseNode(WithMaxRetries(N)), m: m}
	}
	act, err := Run(m.ctx, n, m.store)
	if N > F {
		vCover("budget-above-every-script")
	}
	m.finish(act, err)
}

// (b) struct node embedding *BaseNode without its own fallback (BaseNode's default: give up)
type c01NoFbNode struct {
	*BaseNode
	m *c01Mon
}

func (n *c01NoFbNode) Prep(ctx context.Context, s *SharedStore) (any, error) { return n.m.prep(s) }
func (n *c01NoFbNode) Exec(ctx context.Context, p any) (any, error)          { return n.m.exec(p) }
func (n *c01NoFbNode) Post(ctx context.Context, s *SharedStore, p, e any) (Action, error) {
	return n.m.post(s, p, e)
}

func VH_C01_structNoFb() {
	N := c01Budget()
	m := c01NewMon(N)
	if vNondet[bool]("nonComparableErrors") {
		vCover("non-comparable-error-type")
		m.sliceErrs = true
	}
	n := &c01NoFbNode{BaseNode: NewBaseNode(WithMaxRetries(N)), m: m}
	act, err := Run(m.ctx, n, m.store)
	vAssert(m.fbs == 0, "no-user-fallback-exists")
	m.finish(act, err)
}

// (c) plain Node implementation: no retry settings, no fallback -> exactly one attempt
type c01PlainNode struct{ m *c01Mon }

func (n *c01PlainNode) Prep(ctx context.Context, s *SharedStore) (any, error) { return n.m.prep(s) }
func (n *c01PlainNode) Exec(ctx context.Context, p any) (any, error)          { return n.m.exec(p) }
func (n *c01PlainNode) Post(ctx context.Context, s *SharedStore, p, e any) (Action, error) {
	return n.m.post(s, p, e)
}

func VH_C01_plain() {
	vUnwind(3)
	m := c01NewMon(1)
	act, err := Run(m.ctx, &c01PlainNode{m: m}, m.store)
	m.finish(act, err)
}

// (d) plain Node with its own retry settings and fallback (no BaseNode at all)
type c01PlainRetryNode struct {
	m *c01Mon
	n int
}

func (n *c01PlainRetryNode) Prep(ctx context.Context, s *SharedStore) (any, error) { return n.m.prep(s) }
func (n *c01PlainRetryNode) Exec(ctx context.Context, p any) (any, error)          { return n.m.exec(p) }
func (n *c01PlainRetryNode) ExecFallback(p any, err error) (any, error)            { return n.m.fallback(p, err) }
func (n *c01PlainRetryNode) Post(ctx context.Context, s *SharedStore, p, e any) (Action, error) {
	return n.m.post(s, p, e)
}
func (n *c01PlainRetryNode) GetMaxRetries() int     { return n.n }
func (n *c01PlainRetryNode) GetWait() time.Duration { return 0 }

func VH_C01_plainRetry() {
	N := c01Budget()
	m := c01NewMon(N)
	m.errForms = true
	m.prepTok = &vTok{id: 4}
	act, err := Run(m.ctx, &c01PlainRetryNode{m: m, n: N}, m.store)
	m.finish(act, err)
}

// (e) function-style node, option form, Result-style functions
func VH_C01_optResult() {
	N := c01Budget()
	m := c01NewMon(N)
	n := NewNode(
		WithMaxRetries(N),
		WithPrepFunc(func(ctx context.Context, s *SharedStore) (Result, error) {
			v, err := m.prep(s)
			if err != nil {
				return Result{}, err
			}
			return NewResult(v), nil
		}),
		WithExecFunc(func(ctx context.Context, p Result) (Result, error) {
			v, err := m.exec(p.Value())
			if err != nil {
				return Result{}, err
			}
			return NewResult(v), nil
		}),
		WithExecFallbackFunc(func(p any, err error) (any, error) { return m.fallback(p, err) }),
		WithPostFunc(func(ctx context.Context, s *SharedStore, p, e Result) (Action, error) {
			return m.post(s, p.Value(), e.Value())
		}),
	)
	act, err := Run(m.ctx, n, m.store)
	m.finish(act, err)
}

// (f) function-style node, builder form, Any-style functions
func VH_C01_bldAny() {
	N := c01Budget()
	m := c01NewMon(N)
	m.prepTok = vPayloadE("prepE") // payloads that implement error are payloads
	if vNondet[bool]("fallbackPayloadImplementsError") {
		m.fbTok = &vError{id: 34}
	}
	n := NewNode().
		WithMaxRetries(N).
		WithPrepFuncAny(func(ctx context.Context, s *SharedStore) (any, error) { return m.prep(s) }).
		WithExecFuncAny(func(ctx context.Context, p any) (any, error) { return m.exec(p) }).
		WithExecFallbackFunc(func(p any, err error) (any, error) { return m.fallback(p, err) }).
		WithPostFuncAny(func(ctx context.Context, s *SharedStore, p, e any) (Action, error) { return m.post(s, p, e) })
	if vNondet[bool]("execReplacedInTheOtherStyle") {
		// the last exec function set is the node's exec phase, whatever style the earlier one had
		vCover("exec-function-replaced-in-the-other-style")
		n = NewNode().
			WithMaxRetries(N).
			WithPrepFuncAny(func(ctx context.Context, s *SharedStore) (any, error) { return m.prep(s) }).
			WithExecFuncAny(func(ctx context.Context, p any) (any, error) {
				vAssert(false, "only-the-exec-function-set-last-runs")
				return nil, nil
			}).
			WithExecFunc(func(ctx context.Context, p Result) (Result, error) {
				v, err := m.exec(p.Value())
				if err != nil {
					return Result{}, err
				}
				return NewResult(v), nil
			}).
			WithExecFallbackFunc(func(p any, err error) (any, error) { return m.fallback(p, err) }).
			WithPostFuncAny(func(ctx context.Context, s *SharedStore, p, e any) (Action, error) { return m.post(s, p, e) })
	}
	if vNondet[bool]("batchSettingsOnAFunctionNode") {
		// the batch settings every node carries mean nothing on a node that is not a batch node:
		// its lifecycle is the plain one
		vCover("batch-settings-on-a-function-node")
		n = n.WithBatchConcurrency(2).WithBatchErrorHandling(false)
	}
	act, err := Run(m.ctx, n, m.store)
	m.finish(act, err)
}

// (g) the probed node as the second node of a flow
func VH_C01_inFlow() {
	N := c01Budget()
	m := c01NewMon(N)
	first := &vSimpleNode{act: "go"}
	probe := &c01StructNode{BaseNode: NewBaseNode(WithMaxRetries(N)), m: m}
	after := &vSimpleNode{act: "end"}
	flow := NewFlow(first)
	flow.Connect(first, "go", probe)
	flow.Connect(probe, DefaultAction, after)
	err := flow.Run(m.ctx, m.store)
	vAssert((err == nil) == (m.state == c01Posted), "flow-nil-error-iff-node-succeeded")
	vAssert(m.preps == 1 && m.posts <= 1, "lifecycle-inside-flow")
	if err == nil {
		vCover("run-ok")
		if m.postAction == "" || m.postAction == DefaultAction {
			vCover("default-successor")
		}
	} else {
		vCover("callback-error-ends-run")
	}
}

// the lifecycle under cancellation from inside any callback: post still runs exactly when the exec
// phase produced a result (a cancellation does not turn a successful attempt into a lost result)
func VH_C01_cancel() {
	N := c01Budget()
	m := c01NewMon(N)
	m.mayCancel = true
	m.prepTok = &vTok{id: 3}
	n := &c01StructNode{BaseNode: NewBaseNode(WithMaxRetries(N)), m: m}
	act, err := Run(m.ctx, n, m.store)
	m.finish(act, err)
}
