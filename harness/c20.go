//go:build verif

package flyt

import (
	"context"
	"errors"
	"fmt"
	"time"
)

// C20 — retry wait is honoured between attempts and is interruptible (virtual clock).

type c20Mon struct {
	ctx        *vRunCtx
	w          time.Duration
	budget     int
	execs      int
	prepAt     time.Duration
	lastEnd    time.Duration
	cancelled  bool
	cancelAt   time.Duration
	tc         time.Duration
	timersAt0  int
	postAt     time.Duration
	posted     bool
	execTakesTime bool
	execDur    time.Duration
	inExec     bool
	cancelInExec bool
	errForm    int
}

func (m *c20Mon) exec() (err error) {
	vMon(func() { err = m.exec1(); m.inExec = true })
	// the attempt itself takes (virtual) time; the wait is measured from its END
	if m.execTakesTime {
		time.Sleep(m.execDur)
	}
	vMon(func() { m.lastEnd = vNow(); m.inExec = false })
	return err
}

func (m *c20Mon) exec1() error {
	now := vNow()
	// simultaneous timer expiry and cancellation: Go's select may pick either; outside the claim
	vAssume(!(m.cancelled && now == m.cancelAt))
	vAssert(!m.cancelled, "no-attempt-after-cancellation")
	m.execs++
	if m.execs == 1 {
		vAssert(now == m.prepAt, "no-wait-before-first-attempt")
	} else {
		w := m.w
		if w < 0 {
			w = 0
		}
		vAssert(now-m.lastEnd >= w, "at-least-w-between-attempts")
		if m.w > 0 {
			vCover("waited")
		} else {
			vCover("w<=0")
			vAssert(now == m.lastEnd, "no-wait-when-w<=0")
		}
	}
	m.lastEnd = now
	if vNondet[bool]("fail") {
		switch m.errForm {
		// an attempt that failed on its own inner timeout / cancelled sub-call while the run's
		// context is alive: a failed attempt like any other, the wait applies
		case 1:
			vCover("attempt-error-wraps-a-context-error")
			return fmt.Errorf("inner call: %w", context.DeadlineExceeded)
		case 2:
			vCover("attempt-error-wraps-a-context-error")
			return fmt.Errorf("inner call: %w", context.Canceled)
		}
		return vNewErr()
	}
	return nil
}

func (m *c20Mon) setup() {
	maxN := vParam("N", 3)
	m.budget = vNondet[int]("N")
	vAssume(1 <= m.budget && m.budget <= maxN)
	vUnwind(maxN + 2)
	m.w = vNondet[time.Duration]("w")
	vAssume(m.w >= -(1<<40) && m.w <= 1<<40)
	m.ctx = vNewRunCtx("run")
	if vNondet[bool]("withCancel") {
		m.tc = vNondet[time.Duration]("tc")
		vAssume(m.tc >= 0 && m.tc <= 1<<42)
		vAfterFunc(m.tc, func() {
			vMon(func() {
				m.cancelled = true
				m.cancelAt = vNow()
				m.cancelInExec = m.inExec
			})
			m.ctx.cancel(false)
		})
	}
	if vParam("execTakesTime", 0) > 0 && vNondet[bool]("execTakesTime") {
		m.execTakesTime = true
		m.execDur = vNondet[time.Duration]("execDur")
		vAssume(m.execDur > 0 && m.execDur <= 1<<40)
		vCover("exec-takes-time")
	}
	m.errForm = vChoice("errForm", 3) // one form for all failing attempts of the run
	m.timersAt0 = vTimers()
}

func (m *c20Mon) finish(err error) {
	ctxErr := m.ctx.Err()
	vMon(func() { m.finish1(err, ctxErr) })
}

func (m *c20Mon) finish1(err error, ctxErr error) {
	vLog("execs", m.execs)
	if m.cancelled && m.cancelInExec {
		vCover("cancelled-during-an-attempt")
		return // not a wait: C05's business
	}
	if m.cancelled {
		vCover("cancelled-during-a-wait")
		vAssert(err != nil && errors.Is(err, ctxErr), "cancel-in-wait-error-matches-ctx-error")
		vAssert(vNow() == m.cancelAt, "cancel-in-wait-returns-promptly")
		if m.execs > 1 {
			vCover("cancel-in-later-wait")
		}
	} else {
		vCover("no-cancel")
		if m.posted {
			vAssert(m.postAt == m.lastEnd, "no-wait-after-last-attempt")
		}
		if m.execs >= 3 {
			vCover("two-retries")
		}
	}
}

type c20Node struct {
	*BaseNode
	m *c20Mon
}

func (n *c20Node) Prep(ctx context.Context, s *SharedStore) (any, error) {
	vMon(func() { n.m.prepAt = vNow() })
	return nil, nil
}
func (n *c20Node) Exec(ctx context.Context, p any) (any, error) { return nil, n.m.exec() }
func (n *c20Node) ExecFallback(p any, err error) (any, error)   { return nil, nil }
func (n *c20Node) Post(ctx context.Context, s *SharedStore, p, e any) (Action, error) {
	vMon(func() {
		n.m.posted = true
		n.m.postAt = vNow()
	})
	return "x", nil
}

func VH_C20_single() {
	m := &c20Mon{}
	m.setup()
	var n Node = &c20Node{BaseNode: NewBaseNode(WithMaxRetries(m.budget), WithWait(m.w)), m: m}
	if vNondet[bool]("waitSetBeforeBudget") {
		// the two settings are independent: the order in which they are given does not matter
		vCover("wait-set-before-budget")
		n = &c20Node{BaseNode: NewBaseNode(WithWait(m.w), WithMaxRetries(m.budget)), m: m}
	}
	if vNondet[bool]("settingsFromOverriddenGetters") {
		// the retry settings are what the node's GetMaxRetries / GetWait report: a node type that
		// embeds the base node and overrides GetWait (a computed back-off) is waited for accordingly
		vCover("settings-from-overridden-getters")
		n = &c20Override{c20Node: &c20Node{BaseNode: NewBaseNode(WithMaxRetries(m.budget)), m: m}}
	}
	_, err := Run(m.ctx, n, NewSharedStore())
	m.finish(err)
}

type c20Override struct{ *c20Node }

func (n *c20Override) GetWait() time.Duration { return n.m.w }

// the same per item inside a sequential batch (one item; retry loop is batch.go's own copy)
func VH_C20_batchItem() {
	m := &c20Mon{}
	m.setup()
	var slotErr error
	var slotIsErr bool
	conc := vChoice("concurrency", vParam("cmax", 0)+1) // the pooled path runs the same per-item loop on a worker
	if conc > 0 {
		vCover("pooled")
	}
	b := NewBatchNode()
	if vNondet[bool]("waitSetBeforeBudget") {
		vCover("wait-set-before-budget")
		b = b.WithWait(m.w).WithBatchConcurrency(conc).WithMaxRetries(m.budget)
	} else {
		b = b.WithMaxRetries(m.budget).WithWait(m.w).WithBatchConcurrency(conc)
	}
	b = b.
		WithPrepFunc(func(ctx context.Context, s *SharedStore) ([]Result, error) {
			vMon(func() { m.prepAt = vNow() })
			return []Result{NewResult(1)}, nil
		}).
		WithExecFunc(func(ctx context.Context, item Result) (Result, error) {
			if err := m.exec(); err != nil {
				return Result{}, err
			}
			return item, nil
		}).
		WithPostFunc(func(ctx context.Context, s *SharedStore, items, results []Result) (Action, error) {
			vMon(func() {
				m.posted = true
				m.postAt = vNow()
				slotIsErr = results[0].IsError()
				slotErr = results[0].Error()
			})
			return "x", nil
		})
	if vNondet[bool]("recoveringFallback") {
		// a fallback is for exhausted budgets: a cancellation during the wait is not one
		vCover("batch-item-with-recovering-fallback")
		WithExecFallbackFunc(func(p any, err error) (any, error) { return 1, nil }).apply(b.CustomNode)
	}
	_, err := Run(m.ctx, b, NewSharedStore())
	ctxErr := m.ctx.Err()
	vMon(func() { c20BatchFinish(m, err, slotIsErr, slotErr, ctxErr) })
}

func c20BatchFinish(m *c20Mon, err error, slotIsErr bool, slotErr error, ctxErr error) {
	vLog("execs", m.execs)
	if m.cancelled && m.cancelInExec {
		vCover("cancelled-during-an-attempt")
		return
	}
	if m.cancelled {
		vCover("cancelled-during-a-wait")
		// a batch reports the cancellation through the item's slot
		vAssert(err == nil && m.posted && slotIsErr && errors.Is(slotErr, ctxErr), "cancel-in-item-wait-slot-error-matches-ctx-error")
		vAssert(m.postAt == m.cancelAt, "cancel-in-item-wait-returns-promptly")
	} else {
		vCover("no-cancel")
		vAssert(m.postAt == m.lastEnd, "no-wait-after-last-attempt")
	}
}

// the wait that counts is the one configured when the run starts: a node (single or batch) that has
// already been run and is then given another wait through its builder waits THAT long between the
// attempts of its next run
func VH_C20_reconfigured() {
	vUnwind(8)
	w1, w2 := vNondet[time.Duration]("w1"), vNondet[time.Duration]("w2")
	vAssume(w1 >= 0 && w1 <= 1<<40 && w2 > 0 && w2 <= 1<<40)
	run, attempts := 0, 0
	var failedAt time.Duration
	attempt := func() error {
		var err error
		vMon(func() {
			attempts++
			now := vNow()
			if attempts == 2 && run == 2 {
				vAssert(now-failedAt >= w2, "at-least-w-between-attempts")
				vCover("second-run-waited")
			}
			if attempts == 1 {
				failedAt = now
				err = vNewErr()
			}
		})
		return err
	}
	ctx := vNewCtx()
	if vNondet[bool]("batchNode") {
		vCover("batch-node")
		b := NewBatchNode().WithMaxRetries(2).WithWait(w1).WithBatchConcurrency(vChoice("concurrency", 2)).
			WithPrepFunc(func(ctx context.Context, s *SharedStore) ([]Result, error) { return []Result{NewResult(1)}, nil }).
			WithExecFunc(func(ctx context.Context, item Result) (Result, error) { return item, attempt() })
		run, attempts = 1, 0
		Run(ctx, b, NewSharedStore())
		b.WithWait(w2)
		run, attempts = 2, 0
		Run(ctx, b, NewSharedStore())
	} else {
		vCover("single-node")
		n := NewNode().WithMaxRetries(2).WithWait(w1).
			WithExecFuncAny(func(ctx context.Context, p any) (any, error) { return nil, attempt() })
		run, attempts = 1, 0
		Run(ctx, n, NewSharedStore())
		n.WithWait(w2)
		run, attempts = 2, 0
		Run(ctx, n, NewSharedStore())
	}
	vAssert(attempts == 2, "second-run-retried")
}

// per item inside a batch: no wait after an item's last attempt and none before the next item's
// first - item 0 uses up its budget (with waits between its attempts), item 1 then starts at the
// very (virtual) instant item 0's last attempt ended
func VH_C20_batchNextItem() {
	maxN := vParam("N", 3)
	N := vNondet[int]("N")
	vAssume(1 <= N && N <= maxN)
	N = vConcrete(N)
	vUnwind(maxN + 6)
	w := vNondet[time.Duration]("w")
	vAssume(w > 0 && w <= 1<<40)
	var lastEnd0, first1, prev time.Duration
	attempts := [2]int{}
	b := NewBatchNode().WithMaxRetries(N).WithWait(w).WithBatchConcurrency(vChoice("concurrency", 2)).
		WithPrepFunc(func(ctx context.Context, s *SharedStore) ([]Result, error) {
			return []Result{NewResult(100), NewResult(101)}, nil
		}).
		WithExecFunc(func(ctx context.Context, item Result) (Result, error) {
			k := bIndex(item)
			var err error
			vMon(func() {
				now := vNow()
				attempts[k]++
				if k == 0 {
					if attempts[0] > 1 {
						vAssert(now-prev >= w, "at-least-w-between-attempts")
					}
					prev, lastEnd0 = now, now
					err = vNewErr()
				} else if attempts[1] == 1 {
					first1 = now
				}
			})
			return item, err
		})
	if vNondet[bool]("recoveringFallback") {
		WithExecFallbackFunc(func(p any, err error) (any, error) { return 1, nil }).apply(b.CustomNode)
	}
	var postAt time.Duration
	b.WithPostFunc(func(ctx context.Context, s *SharedStore, items, results []Result) (Action, error) {
		vMon(func() { postAt = vNow() })
		return "x", nil
	})
	if _, err := Run(vNewCtx(), b, NewSharedStore()); err != nil {
		return
	}
	vAssert(attempts[0] == N && attempts[1] == 1, "failing-item-gets-exactly-N-attempts")
	vAssert(first1 == lastEnd0, "no-wait-before-the-next-items-first-attempt")
	vAssert(postAt == lastEnd0, "no-wait-after-last-attempt")
	if N > 1 {
		vCover("next-item-after-an-exhausted-budget")
	}
}
