//go:build verif

package flyt

// C13 — the shared store is linearizable and data-race free.

// Layer 3: two goroutines, one operation each, every pair of operation kinds; the results must be
// explained by one of the two sequential orders on a reference map.
type c13Op struct {
	kind int
	key  string
	val  any // an int, or a pointer to a token: two ops may store distinct pointers to equal contents
	// observed
	ok        bool
	got       any
	gotSlice  []any
	n         int
	hasA      bool
	hasB      bool
	valA      any
	valB      any
	inv, resp int // logical timestamps
}

const c13Kinds = 11

func c13Run(s *SharedStore, o *c13Op) {
	switch o.kind {
	case 0:
		s.Set(o.key, o.val)
	case 1:
		o.got, o.ok = s.Get(o.key)
	case 2:
		o.ok = s.Has(o.key)
	case 3:
		s.Delete(o.key)
	case 4:
		o.n = s.Len()
	case 5:
		ks := s.Keys()
		o.n = len(ks)
		for _, k := range ks {
			if k == "a" {
				o.hasA = true
			}
			if k == "b" {
				o.hasB = true
			}
		}
	case 6:
		m := s.GetAll()
		o.n = len(m)
		o.valA, o.hasA = m["a"]
		o.valB, o.hasB = m["b"]
		// the caller owns what GetAll returned and may scribble on it: no other operation's answer
		// (nor the store) is affected — every answer is still explained by the store's own history
		m["ghost"] = 1
		delete(m, "a")
	case 7:
		s.Merge(map[string]any{"a": o.val, "b": o.val})
	case 8:
		s.Clear()
	case 10:
		o.n = s.GetIntOr(o.key, 7) // a typed getter with a default: a read like Get
	default:
		o.gotSlice = append([]any(nil), s.GetSlice(o.key)...) // a typed getter: a read like Get (result copied by the caller itself)
		if o.gotSlice != nil && len(o.gotSlice) == 0 {
			o.gotSlice = nil
		}
	}
}

// c13SliceOf: what GetSlice answers for a stored value of the kinds used here (a one-element typed
// slice converts to a one-element []any, everything else is "not a slice")
func c13SliceOf(v any) (any, bool) {
	if t, ok := v.([]int); ok && len(t) == 1 {
		return t[0], true
	}
	return nil, false
}

// c13IntOf: what GetIntOr(k, 7) answers for the value kinds used here
func c13IntOf(has bool, val any) int {
	if !has {
		return 7
	}
	switch v := val.(type) {
	case int:
		return v
	case float64:
		return int(v)
	}
	return 7
}

func c13SliceAgrees(got []any, has bool, val any) bool {
	el, isSlice := c13SliceOf(val)
	if !has || !isSlice {
		return got == nil
	}
	return len(got) == 1 && vSame(got[0], el)
}

// reference: a three-key map (Merge writes a and b; c is only touched by single-key operations)
type c13Ref struct {
	hasA, hasB, hasC bool
	valA, valB, valC any
}

func (r *c13Ref) n() int {
	n := 0
	if r.hasA {
		n++
	}
	if r.hasB {
		n++
	}
	if r.hasC {
		n++
	}
	return n
}

func (r *c13Ref) slot(key string) (*bool, *any) {
	switch key {
	case "a":
		return &r.hasA, &r.valA
	case "b":
		return &r.hasB, &r.valB
	}
	return &r.hasC, &r.valC
}

// sameState: the store's final contents equal the reference state
func (r *c13Ref) sameState(s *SharedStore) bool {
	ok := s.Len() == r.n()
	// Keys lists exactly the live keys (the third key of the run may be the empty string)
	ks := s.Keys()
	ok = ok && len(ks) == r.n()
	for _, k := range ks {
		has, _ := r.slot(k)
		ok = ok && (k == "a" || k == "b" || k == c13Third) && *has
	}
	for _, k := range []string{"a", "b", c13Third} {
		has, val := r.slot(k)
		v, present := s.Get(k)
		ok = ok && present == *has && (!*has || vSame(v, *val))
		// the typed getters answer for the value stored now
		ok = ok && c13SliceAgrees(s.GetSlice(k), *has, *val)
	}
	return ok
}

// apply runs o on the reference and reports whether o's observed results match
func (r *c13Ref) apply(o *c13Op) bool {
	has, val := r.slot(o.key)
	switch o.kind {
	case 0:
		*has, *val = true, o.val
		return true
	case 1:
		return o.ok == *has && (!*has || vSame(o.got, *val)) && (*has || o.got == nil)
	case 2:
		return o.ok == *has
	case 3:
		*has, *val = false, nil
		return true
	case 4:
		return o.n == r.n()
	case 5:
		return o.n == r.n() && o.hasA == r.hasA && o.hasB == r.hasB
	case 6:
		return o.n == r.n() && o.hasA == r.hasA && o.hasB == r.hasB &&
			(!r.hasA || vSame(o.valA, r.valA)) && (!r.hasB || vSame(o.valB, r.valB))
	case 7:
		r.hasA, r.hasB, r.valA, r.valB = true, true, o.val, o.val
		return true
	case 8:
		*r = c13Ref{}
		return true
	case 10:
		return o.n == c13IntOf(*has, *val)
	default:
		return c13SliceAgrees(o.gotSlice, *has, *val)
	}
}

// c13Val: an int, a one-element typed slice, or a fresh pointer to a token with fixed contents — values written by different
// operations are then distinguishable (by identity) although they are deeply equal
var c13ValueKind = -1

// the third key of the run: "c", or the empty string (a key like any other)
var c13Third = "c"

func c13Init() {
	if c13ValueKind < 0 {
		c13ValueKind = vChoice("valueKind", 4) // one kind for all values of the run
		c13Third = "c"
		if c13ValueKind == 0 && vNondet[bool]("thirdKeyIsTheEmptyString") {
			vCover("empty-string-key")
			c13Third = ""
		}
	}
}

func c13Val(label string) any {
	c13Init()
	switch c13ValueKind {
	case 1:
		vCover("pointer-values")
		return &vTok{id: 7}
	case 2:
		vCover("typed-slice-values")
		return []int{vNondet[int](label + ".val")}
	case 3:
		vCover("float-values")
		return 2.5
	}
	return vNondet[int](label + ".val")
}

func c13NewOp(label string) *c13Op {
	c13Init()
	o := &c13Op{kind: vChoice(label+".kind", c13Kinds)}
	switch vChoice(label+".key", 3) {
	case 0:
		o.key = "a"
	case 1:
		o.key = "b"
	default:
		o.key = c13Third
	}
	o.val = c13Val(label)
	return o
}

func VH_C13_pair() {
	vUnwind(12)
	c13ValueKind = -1
	s := NewSharedStore()
	pre := c13Ref{}
	if vNondet[bool]("preA") {
		v := c13Val("preA")
		s.Set("a", v)
		pre.hasA, pre.valA = true, v
	}
	o1, o2 := c13NewOp("op1"), c13NewOp("op2")
	done := 0
	go func() {
		c13Run(s, o1)
		vMonC(1, func() { done++ })
	}()
	go func() {
		c13Run(s, o2)
		vMonC(1, func() { done++ })
	}()
	vBlockUntil(func() bool { return done == 2 })
	// the final contents of the store are part of the history (two trailing reads)
	var ok12, ok21 bool
	r12, r21 := pre, pre
	a := r12.apply(o1)
	b := r12.apply(o2)
	ok12 = a && b && r12.sameState(s)
	b = r21.apply(o2)
	a = r21.apply(o1)
	ok21 = a && b && r21.sameState(s)
	vSig("k1", o1.kind)
	vSig("k2", o2.kind)
	vAssert(ok12 || ok21, "some-sequential-order-explains-both-results")
	if ok12 && !ok21 {
		vCover("only-order-12")
	}
	if ok21 && !ok12 {
		vCover("only-order-21")
	}
	if (o1.kind == 7 && o2.kind == 6) || (o1.kind == 6 && o2.kind == 7) {
		vCover("merge-vs-getall")
	}
	if (o1.kind == 8 && o2.kind == 5) || (o1.kind == 5 && o2.kind == 8) {
		vCover("clear-vs-keys")
	}
}

// three goroutines: a two-key Merge, a Clear and a snapshot reader
func VH_C13_three() {
	vUnwind(12)
	s := NewSharedStore()
	s.Set("a", 0)
	o1 := &c13Op{kind: 7, val: 5}
	o2 := &c13Op{kind: 8}
	o3 := &c13Op{kind: vChoice("reader", 3) + 4} // Len, Keys or GetAll
	done := 0
	for _, o := range []*c13Op{o1, o2, o3} {
		o := o
		go func() {
			c13Run(s, o)
			vMonC(1, func() { done++ })
		}()
	}
	vBlockUntil(func() bool { return done == 3 })
	okAny := false
	ops := [3]*c13Op{o1, o2, o3}
	perms := [6][3]int{{0, 1, 2}, {0, 2, 1}, {1, 0, 2}, {1, 2, 0}, {2, 0, 1}, {2, 1, 0}}
	for _, p := range perms {
		r := c13Ref{hasA: true, valA: 0}
		ok := true
		for _, i := range p {
			if !r.apply(ops[i]) {
				ok = false
			}
		}
		if ok && r.sameState(s) {
			okAny = true
		}
	}
	vAssert(okAny, "some-sequential-order-explains-all-results")
	vCover("three")
}

// three goroutines, one symbolic operation each (all 9^3 kind combinations, symbolic keys/values)
func VH_C13_three3() {
	vUnwind(12)
	c13ValueKind = 0 // three symbolic operations: int values only (the value kinds are VH_C13_pair's)
	s := NewSharedStore()
	pre := c13Ref{}
	if vNondet[bool]("preA") {
		s.Set("a", 1)
		pre.hasA, pre.valA = true, 1
	}
	ops := [3]*c13Op{c13NewOp("op1"), c13NewOp("op2"), c13NewOp("op3")}
	done := 0
	for _, o := range ops {
		o := o
		go func() {
			c13Run(s, o)
			vMonC(1, func() { done++ })
		}()
	}
	vBlockUntil(func() bool { return done == 3 })
	okAny := false
	perms := [6][3]int{{0, 1, 2}, {0, 2, 1}, {1, 0, 2}, {1, 2, 0}, {2, 0, 1}, {2, 1, 0}}
	for _, p := range perms {
		r := pre
		ok := true
		for _, i := range p {
			if !r.apply(ops[i]) {
				ok = false
			}
		}
		if ok && r.sameState(s) {
			okAny = true
		}
	}
	vAssert(okAny, "some-sequential-order-explains-all-results")
	vCover("three3")
}
