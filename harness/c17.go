//go:build verif

package flyt

import (
	"context"
	"fmt"
)

// C17 — function-style nodes pass values between phases unchanged.

type c17Mon struct {
	p, x       any   // payload prep returns, payload exec returns
	execErrRes bool  // exec returns an error *result* (Result style only)
	e          error // the error inside that result
	execSeen   bool
	postSeen   bool
}

func (m *c17Mon) checkExecArg(got any) {
	m.execSeen = true
	vAssert(vSame(got, m.p), "exec-receives-the-value-prep-returned")
}

func (m *c17Mon) checkPostAny(gp, ge any) {
	m.postSeen = true
	vAssert(vSame(gp, m.p), "post-receives-the-prep-value")
	if m.execErrRes {
		vAssert(ge == nil, "any-style-post-sees-nil-for-an-error-result")
	} else {
		vAssert(vSame(ge, m.x), "post-receives-the-exec-value")
	}
}

func (m *c17Mon) checkPostResult(gp, ge Result) {
	m.postSeen = true
	vAssert(!gp.IsError() && vSame(gp.Value(), m.p), "post-receives-the-prep-value")
	if m.execErrRes {
		vCover("error-result")
		vAssert(ge.IsError(), "error-result-reaches-post-as-an-error-result")
		vAssert(ge.Error() == m.e, "error-result-keeps-its-error")
	} else {
		vAssert(!ge.IsError(), "value-result-is-not-an-error")
		_, wrapped := ge.Value().(Result)
		vAssert(!wrapped, "result-is-not-wrapped-a-second-time")
		vAssert(vSame(ge.Value(), m.x), "post-receives-the-exec-value")
	}
}

func c17Build(m *c17Mon) *NodeBuilder {
	prepRes, execRes, postRes := vNondet[bool]("prepResultStyle"), vNondet[bool]("execResultStyle"), vNondet[bool]("postResultStyle")
	builderForm := vNondet[bool]("builderForm")
	m.execErrRes = execRes && vNondet[bool]("execReturnsErrorResult")
	if m.execErrRes {
		m.e = vNewErr()
	}
	prepR := func(ctx context.Context, s *SharedStore) (Result, error) { return NewResult(m.p), nil }
	prepA := func(ctx context.Context, s *SharedStore) (any, error) { return m.p, nil }
	execR := func(ctx context.Context, p Result) (Result, error) {
		m.checkExecArg(p.Value())
		vAssert(!p.IsError(), "exec-argument-is-not-an-error-result")
		if m.execErrRes {
			return NewErrorResult(m.e), nil
		}
		return NewResult(m.x), nil
	}
	execA := func(ctx context.Context, p any) (any, error) {
		m.checkExecArg(p)
		return m.x, nil
	}
	postR := func(ctx context.Context, s *SharedStore, p, e Result) (Action, error) {
		m.checkPostResult(p, e)
		return "done", nil
	}
	postA := func(ctx context.Context, s *SharedStore, p, e any) (Action, error) {
		m.checkPostAny(p, e)
		return "done", nil
	}
	if builderForm {
		vCover("builder-form")
		n := NewNode()
		if prepRes {
			n.WithPrepFunc(prepR)
		} else {
			n.WithPrepFuncAny(prepA)
		}
		if execRes {
			if vNondet[bool]("execSetTwice") {
				// the last setting wins: an Any-style exec set earlier leaves no trace
				vCover("exec-set-any-style-then-result-style")
				n.WithExecFuncAny(func(ctx context.Context, p any) (any, error) { return nil, nil })
			}
			n.WithExecFunc(execR)
		} else {
			n.WithExecFuncAny(execA)
		}
		if postRes {
			n.WithPostFunc(postR)
		} else {
			n.WithPostFuncAny(postA)
		}
		return n
	}
	vCover("option-form")
	var opts []any
	if prepRes {
		opts = append(opts, WithPrepFunc(prepR))
	} else {
		opts = append(opts, WithPrepFuncAny(prepA))
	}
	if execRes {
		opts = append(opts, WithExecFunc(execR))
	} else {
		opts = append(opts, WithExecFuncAny(execA))
	}
	if postRes {
		opts = append(opts, WithPostFunc(postR))
	} else {
		opts = append(opts, WithPostFuncAny(postA))
	}
	return NewNode(opts...)
}

// payloads: any dynamic kind from the catalogue except flyt.Result-carrying ones (a Result
// handed to Exec is unwrapped by design; Result-in-Result is outside the property's payload list)
func c17Payload(label string) any {
	v, _ := vAnyOf(label)
	_, isRes := v.(Result)
	vAssume(!isRes)
	return v
}

func VH_C17_single() {
	var m *c17Mon
	if vParam("wideExec", 0) == 0 {
		m = &c17Mon{p: c17Payload("p"), x: vPayload("x")}
	} else {
		m = &c17Mon{p: vPayload("p"), x: c17Payload("x")}
	}
	n := c17Build(m)
	extra := vChoice("extraSetting", 3)
	if extra == 2 {
		// a fallback is for failed attempts: an exec that RETURNS an error result (with a nil error)
		// has produced its result, which goes to post as it is
		vCover("with-recovering-fallback")
		n.WithExecFallbackFunc(func(p any, err error) (any, error) { return &vTok{id: 4711}, nil })
	}
	if extra == 1 {
		// retry settings do not change what a (succeeding) exec receives
		vCover("with-retry-budget")
		n.WithMaxRetries(3)
	}
	act, err := Run(vNewCtx(), n, NewSharedStore())
	if err == nil && act == "done" && m.execSeen && m.postSeen {
		vCover("ran")
	}
}

func VH_C17_flow() {
	m := &c17Mon{p: vPayload("p"), x: vPayload("x")}
	first := &vSimpleNode{act: "go"}
	n := c17Build(m)
	f := NewFlow(first)
	f.Connect(first, "go", n)
	err := f.Run(vNewCtx(), NewSharedStore())
	if err == nil && m.execSeen && m.postSeen {
		vCover("in-flow")
	}
}

// the exec function as the item function of a batch: each item value reaches exec unchanged and its
// result reaches the batch post in its slot, neither wrapped twice nor stripped
func VH_C17_batch() {
	v0, v1 := vPayload("i0"), vPayload("i1")
	x0 := vPayload("x0")
	anyStyle := vNondet[bool]("execAnyStyle")
	errRes := !anyStyle && vNondet[bool]("item1ReturnsErrorResult")
	// item 1 may also fail with a Go error, in either error-handling mode: whatever that does to
	// item 1's slot, item 0's result (possibly a nil payload) is still what its exec returned
	goErr := !errRes && vNondet[bool]("item1FailsWithGoError")
	stop := vNondet[bool]("stopMode")
	e1 := vNewErr()
	form := 0
	if errRes {
		form = vChoice("item1ErrorForm", 3)
	}
	switch form {
	// the error an item reports may itself wrap a context error (its own inner timeout) while the
	// batch's context is alive: it is still that item's error state, handed to post as it is
	case 1:
		vCover("batch-error-wraps-a-context-error")
		e1 = fmt.Errorf("fetch item: %w", context.DeadlineExceeded)
	case 2:
		vCover("batch-error-wraps-a-context-error")
		e1 = fmt.Errorf("fetch item: %w", context.Canceled)
	}
	c := vChoice("concurrency", 2) // sequential path and pooled path have their own slot-writing code
	if c > 0 {
		vCover("batch-concurrent")
	}
	seen := [2]bool{}
	which := func(it any) int {
		// items are told apart by position: item 1 is the one that may return an error result
		if vSame(it, v1) && (!vSame(it, v0) || seen[0]) {
			return 1
		}
		return 0
	}
	b := NewBatchNode().WithBatchConcurrency(c).WithBatchErrorHandling(!stop).WithPrepFunc(func(ctx context.Context, s *SharedStore) ([]Result, error) {
		return []Result{NewResult(v0), NewResult(v1)}, nil
	})
	if anyStyle {
		vCover("batch-any-style")
		b.WithExecFuncAny(func(ctx context.Context, it any) (any, error) {
			k := 0
			vMon(func() {
				k = which(it)
				vAssert(vSame(it, v0) || vSame(it, v1), "batch-exec-receives-the-item")
				seen[k] = true
			})
			if k == 1 && goErr {
				return nil, e1
			}
			return x0, nil
		})
	} else {
		b.WithExecFunc(func(ctx context.Context, it Result) (Result, error) {
			k := 0
			vMon(func() {
				k = which(it.Value())
				vAssert(vSame(it.Value(), v0) || vSame(it.Value(), v1), "batch-exec-receives-the-item")
				seen[k] = true
			})
			if k == 1 && errRes {
				return NewErrorResult(e1), nil
			}
			if k == 1 && goErr {
				return Result{}, e1
			}
			return NewResult(x0), nil
		})
	}
	posted := false
	b.WithPostFunc(func(ctx context.Context, s *SharedStore, items, results []Result) (Action, error) {
		vMon(func() {
			posted = true
			vAssert(len(items) == 2 && len(results) == 2, "batch-post-sees-all")
			if len(items) != 2 || len(results) != 2 {
				return
			}
			vAssert(vSame(items[0].Value(), v0) && vSame(items[1].Value(), v1), "batch-post-items-unchanged")
			vAssert(!results[0].IsError() && vSame(results[0].Value(), x0), "batch-post-receives-the-exec-value")
			_, w0 := results[0].Value().(Result)
			vAssert(!w0, "batch-result-not-wrapped-twice")
			if errRes {
				vCover("batch-error-result")
				vAssert(results[1].IsError() && results[1].Error() == e1, "batch-error-result-reaches-post")
			} else if goErr {
				vCover("batch-item-fails-with-go-error")
				if stop {
					vCover("batch-stop-mode-after-a-value")
				}
				vAssert(results[1].IsError(), "batch-failed-item-is-an-error-result")
			} else {
				vAssert(!results[1].IsError() && vSame(results[1].Value(), x0), "batch-post-receives-the-exec-value")
			}
		})
		return "done", nil
	})
	_, err := Run(vNewCtx(), b, NewSharedStore())
	vMon(func() {
		if err == nil && posted && seen[0] && seen[1] {
			vCover("batch-ran")
		}
	})
}

// a batch whose (any-style) prep returns ONE value that is not a list is a batch of that one item:
// the item handed to exec and to post is the value prep returned, as it is (a pointer stays that
// pointer, a map that map)
func VH_C17_batchSingle() {
	v := vPayload("single")
	if v == nil {
		return // a nil prep value is an empty batch (C18/C06)
	}
	pp := &v // a pointer to an interface variable is an ordinary value too
	if vNondet[bool]("pointerToInterface") {
		vCover("single-item-pointer-to-interface")
		v = pp
	}
	execs := 0
	posted := false
	b := NewBatchNode(
		WithPrepFuncAny(func(ctx context.Context, s *SharedStore) (any, error) { return v, nil }),
		WithExecFuncAny(func(ctx context.Context, it any) (any, error) {
			execs++
			vAssert(vSame(it, v), "single-item-batch-exec-receives-the-prep-value")
			return it, nil
		}))
	b.WithPostFunc(func(ctx context.Context, s *SharedStore, items, results []Result) (Action, error) {
		posted = true
		vAssert(len(items) == 1 && len(results) == 1, "single-item-batch-has-one-item")
		if len(items) == 1 && len(results) == 1 {
			vAssert(vSame(items[0].Value(), v), "single-item-batch-post-sees-the-prep-value")
			vAssert(vSame(results[0].Value(), v), "single-item-batch-post-sees-the-exec-value")
		}
		return "done", nil
	})
	_, err := Run(vNewCtx(), b, NewSharedStore())
	vAssert(err == nil && posted && execs == 1, "single-item-batch-runs-once")
	vCover("single-item-batch")
}
