//go:build verif

package flyt

import (
	"context"
	"fmt"
	"time"
)

// C19 — configuration styles are equivalent; defaults and last-setting-wins hold.

type c19Obs struct {
	retries int
	wait    time.Duration
	conc    int
	mode    string
	prepHit int
	execHit int
	postHit int
	fbHit   int
}

var c19Hit int

func c19PrepFn(id int) func(context.Context, *SharedStore) (Result, error) {
	return func(context.Context, *SharedStore) (Result, error) { c19Hit = id; return NewResult(id), nil }
}
func c19ExecFn(id int) func(context.Context, Result) (Result, error) {
	return func(_ context.Context, p Result) (Result, error) { c19Hit = id; return NewResult(id), nil }
}
func c19PostFn(id int) func(context.Context, *SharedStore, Result, Result) (Action, error) {
	return func(context.Context, *SharedStore, Result, Result) (Action, error) { c19Hit = id; return "p", nil }
}
func c19FbFn(id int) func(any, error) (any, error) {
	return func(any, error) (any, error) { c19Hit = id; return nil, nil }
}
func c19PrepAny(id int) func(context.Context, *SharedStore) (any, error) {
	return func(context.Context, *SharedStore) (any, error) { c19Hit = id; return id, nil }
}
func c19ExecAny(id int) func(context.Context, any) (any, error) {
	return func(context.Context, any) (any, error) { c19Hit = id; return id, nil }
}
func c19PostAny(id int) func(context.Context, *SharedStore, any, any) (Action, error) {
	return func(context.Context, *SharedStore, any, any) (Action, error) { c19Hit = id; return "p", nil }
}

// observe reads the configuration through its public observables (getters + which function a
// phase call reaches; 0 = the built-in default)
func c19Observe(n *NodeBuilder) c19Obs {
	var o c19Obs
	o.retries, o.wait, o.conc, o.mode = n.GetMaxRetries(), n.GetWait(), n.GetBatchConcurrency(), n.GetBatchErrorHandling()
	ctx, st := vNewCtx(), NewSharedStore()
	c19Hit = 0
	n.Prep(ctx, st)
	o.prepHit = c19Hit
	c19Hit = 0
	n.Exec(ctx, 1)
	o.execHit = c19Hit
	c19Hit = 0
	n.Post(ctx, st, 1, 2)
	o.postHit = c19Hit
	c19Hit = 0
	n.ExecFallback(1, vErrCanceled)
	o.fbHit = c19Hit
	return o
}

func c19Equal(a, b c19Obs, label string) {
	vAssert(a.retries == b.retries, label+":max-retries")
	vAssert(a.wait == b.wait, label+":wait")
	vAssert(a.conc == b.conc, label+":batch-concurrency")
	vAssert(a.mode == b.mode, label+":batch-error-handling")
	vAssert(a.prepHit == b.prepHit, label+":prep-func")
	vAssert(a.execHit == b.execHit, label+":exec-func")
	vAssert(a.postHit == b.postHit, label+":post-func")
	vAssert(a.fbHit == b.fbHit, label+":fallback-func")
}

type c19Setting struct {
	kind int
	i    int
	d    time.Duration
	b    bool
}

const c19Kinds = 11

func c19NewSetting(label string) c19Setting {
	s := c19Setting{kind: vChoice(label+".kind", c19Kinds)}
	s.i = vNondet[int](label + ".int")
	s.d = vNondet[time.Duration](label + ".dur")
	s.b = vNondet[bool](label + ".bool")
	return s
}

// option form of a setting (what NewNode(opts...) receives)
func (s c19Setting) option(id int) any {
	switch s.kind {
	case 0:
		return WithMaxRetries(s.i)
	case 1:
		return WithWait(s.d)
	case 2:
		return WithBatchConcurrency(s.i)
	case 3:
		return WithBatchErrorHandling(s.b)
	case 4:
		return WithPrepFunc(c19PrepFn(id))
	case 5:
		return WithExecFunc(c19ExecFn(id))
	case 6:
		return WithPostFunc(c19PostFn(id))
	case 7:
		return WithExecFallbackFunc(c19FbFn(id))
	case 8:
		return WithPrepFuncAny(c19PrepAny(id))
	case 9:
		return WithExecFuncAny(c19ExecAny(id))
	default:
		return WithPostFuncAny(c19PostAny(id))
	}
}

// applyOption applies the option form to an existing node the way the constructor does
func (s c19Setting) applyOption(n *NodeBuilder, id int) {
	switch o := s.option(id).(type) {
	case NodeOption:
		o(n.BaseNode)
	case CustomNodeOption:
		o.apply(n.CustomNode)
	default:
		vFail("unknown option type")
	}
}

// builder form
func (s c19Setting) applyBuilder(n *NodeBuilder, id int) {
	switch s.kind {
	case 0:
		n.WithMaxRetries(s.i)
	case 1:
		n.WithWait(s.d)
	case 2:
		n.WithBatchConcurrency(s.i)
	case 3:
		n.WithBatchErrorHandling(s.b)
	case 4:
		n.WithPrepFunc(c19PrepFn(id))
	case 5:
		n.WithExecFunc(c19ExecFn(id))
	case 6:
		n.WithPostFunc(c19PostFn(id))
	case 7:
		n.WithExecFallbackFunc(c19FbFn(id))
	case 8:
		n.WithPrepFuncAny(c19PrepAny(id))
	case 9:
		n.WithExecFuncAny(c19ExecAny(id))
	default:
		n.WithPostFuncAny(c19PostAny(id))
	}
}

// spec: the addressed parameter takes the new value, the others keep theirs. A meaningful value
// (budget >= 1, wait >= 0, concurrency >= 0) must be reported back as given; what an out-of-range
// value is stored as is not fixed by the property (an implementation may clamp it), only that every
// form and order agrees on it: there the reference is the same setting applied alone, in option
// form, to a fresh node.
func (s c19Setting) spec(o c19Obs, id int) c19Obs {
	switch s.kind {
	case 0:
		if s.i >= 1 {
			o.retries = s.i
		} else {
			vCover("out-of-range-value")
			o.retries = NewNode(WithMaxRetries(s.i)).GetMaxRetries()
		}
	case 1:
		if s.d >= 0 {
			o.wait = s.d
		} else {
			o.wait = NewNode(WithWait(s.d)).GetWait()
		}
	case 2:
		if s.i >= 0 {
			o.conc = s.i
		} else {
			o.conc = NewNode(WithBatchConcurrency(s.i)).GetBatchConcurrency()
		}
	case 3:
		if s.b {
			o.mode = "continue"
		} else {
			o.mode = "stop"
		}
	case 4, 8:
		o.prepHit = id
	case 5, 9:
		o.execHit = id
	case 6, 10:
		o.postHit = id
	default:
		o.fbHit = id
	}
	return o
}

// arbitrary prior configuration, identical on both nodes
func c19Prior() (*NodeBuilder, *NodeBuilder) {
	a, b := NewNode(), NewNode()
	r, w, c := vNondet[int]("prior.retries"), vNondet[time.Duration]("prior.wait"), vNondet[int]("prior.conc")
	for _, n := range []*NodeBuilder{a, b} {
		WithMaxRetries(r)(n.BaseNode)
		WithWait(w)(n.BaseNode)
		WithBatchConcurrency(c)(n.BaseNode)
	}
	switch vChoice("prior.mode", 3) {
	case 1:
		WithBatchErrorHandling(false)(a.BaseNode)
		WithBatchErrorHandling(false)(b.BaseNode)
	case 2:
		WithBatchErrorHandling(true)(a.BaseNode)
		WithBatchErrorHandling(true)(b.BaseNode)
	}
	if vNondet[bool]("prior.funcs") {
		for _, n := range []*NodeBuilder{a, b} {
			n.WithPrepFunc(c19PrepFn(91)).WithExecFunc(c19ExecFn(92)).WithPostFunc(c19PostFn(93)).WithExecFallbackFunc(c19FbFn(94))
		}
		vCover("prior-functions-set")
	}
	return a, b
}

// one setting applied in option form to A and in builder form to B, from an arbitrary prior state
func VH_C19_step() {
	a, b := c19Prior()
	before := c19Observe(a)
	s := c19NewSetting("s")
	if vNondet[bool]("configurationReadBeforeTheSetting") {
		// reading the configuration is harmless: a setting made after a read counts like any other
		vCover("configuration-read-before-the-setting")
		c19Observe(b)
	}
	s.applyOption(a, 7)
	s.applyBuilder(b, 7)
	oa, ob := c19Observe(a), c19Observe(b)
	want := s.spec(before, 7)
	c19Equal(oa, want, "option-form-vs-spec")
	c19Equal(ob, want, "builder-form-vs-spec")
	// configuring one node leaves every other node alone: fresh nodes still have the defaults
	c19FreshDefaults()
	vCover("step")
}

// sequences: all options in one constructor call vs the same settings chained
func VH_C19_ctor() {
	L := vParam("L", 2)
	var opts []any
	b := NewNode()
	want := c19Observe(NewNode())
	readBetween := vNondet[bool]("configurationReadBetweenSettings")
	if readBetween {
		vCover("configuration-read-between-settings")
	}
	for i := 0; i < L; i++ {
		s := c19NewSetting("s")
		opts = append(opts, s.option(10+i))
		if readBetween {
			c19Observe(b)
		}
		s.applyBuilder(b, 10+i)
		want = s.spec(want, 10+i)
	}
	a := NewNode(opts...)
	c19Equal(c19Observe(a), want, "constructor-options-vs-spec")
	// an option list is the caller's: a second node built from the same list is configured the same
	a2 := NewNode(opts...)
	c19Equal(c19Observe(a2), want, "second-node-from-the-same-option-list")
	c19Equal(c19Observe(b), want, "chained-builder-vs-spec")
	// configuring one node leaves every other node alone: fresh nodes still have the defaults
	c19FreshDefaults()
	vCover("ctor")
}

// mixture: first half through the constructor, second half chained
func VH_C19_mixed() {
	s1, s2 := c19NewSetting("s1"), c19NewSetting("s2")
	a := NewNode(s1.option(21))
	s2.applyBuilder(a, 22)
	b := NewNode()
	s1.applyBuilder(b, 21)
	s2.applyOption(b, 22)
	want := s2.spec(s1.spec(c19Observe(NewNode()), 21), 22)
	c19Equal(c19Observe(a), want, "ctor-then-builder-vs-spec")
	c19Equal(c19Observe(b), want, "builder-then-option-vs-spec")
	vCover("mixed")
}

// ---- batch node builders ----

type c19BObs struct {
	retries int
	wait    time.Duration
	conc    int
	mode    string
	execHit int
	fbHit   int
}

func c19BObserve(n *BatchNodeBuilder) c19BObs {
	var o c19BObs
	o.retries, o.wait, o.conc, o.mode = n.GetMaxRetries(), n.GetWait(), n.GetBatchConcurrency(), n.GetBatchErrorHandling()
	c19Hit = 0
	n.Exec(vNewCtx(), NewResult(1))
	o.execHit = c19Hit
	c19Hit = 0
	n.ExecFallback(1, vErrCanceled)
	o.fbHit = c19Hit
	return o
}

func c19BEqual(a, b c19BObs, label string) {
	vAssert(a.retries == b.retries, label+":max-retries")
	vAssert(a.wait == b.wait, label+":wait")
	vAssert(a.conc == b.conc, label+":batch-concurrency")
	vAssert(a.mode == b.mode, label+":batch-error-handling")
	vAssert(a.execHit == b.execHit, label+":exec-func")
	vAssert(a.fbHit == b.fbHit, label+":fallback-func")
}

const c19BKinds = 6

func c19BSetting(label string) c19Setting {
	s := c19Setting{kind: vChoice(label+".kind", c19BKinds)}
	s.i = vNondet[int](label + ".int")
	s.d = vNondet[time.Duration](label + ".dur")
	s.b = vNondet[bool](label + ".bool")
	return s
}

func (s c19Setting) bOption(id int) any {
	switch s.kind {
	case 0:
		return WithMaxRetries(s.i)
	case 1:
		return WithWait(s.d)
	case 2:
		return WithBatchConcurrency(s.i)
	case 3:
		return WithBatchErrorHandling(s.b)
	case 4:
		return WithExecFunc(c19ExecFn(id))
	default:
		return WithExecFuncAny(c19ExecAny(id))
	}
}

func (s c19Setting) bApplyBuilder(n *BatchNodeBuilder, id int) {
	switch s.kind {
	case 0:
		n.WithMaxRetries(s.i)
	case 1:
		n.WithWait(s.d)
	case 2:
		n.WithBatchConcurrency(s.i)
	case 3:
		n.WithBatchErrorHandling(s.b)
	case 4:
		n.WithExecFunc(c19ExecFn(id))
	default:
		n.WithExecFuncAny(c19ExecAny(id))
	}
}

func (s c19Setting) bSpec(o c19BObs, id int) c19BObs {
	switch s.kind {
	case 0:
		if s.i >= 1 {
			o.retries = s.i
		} else {
			o.retries = NewBatchNode(WithMaxRetries(s.i)).GetMaxRetries()
		}
	case 1:
		if s.d >= 0 {
			o.wait = s.d
		} else {
			o.wait = NewBatchNode(WithWait(s.d)).GetWait()
		}
	case 2:
		if s.i >= 0 {
			o.conc = s.i
		} else {
			o.conc = NewBatchNode(WithBatchConcurrency(s.i)).GetBatchConcurrency()
		}
	case 3:
		if s.b {
			o.mode = "continue"
		} else {
			o.mode = "stop"
		}
	default:
		o.execHit = id
	}
	return o
}

func VH_C19_batchCtor() {
	L := vParam("L", 2)
	var opts []any
	b := NewBatchNode()
	want := c19BObserve(NewBatchNode())
	readBetween := vNondet[bool]("configurationReadBetweenSettings")
	if readBetween {
		vCover("configuration-read-between-settings")
	}
	for i := 0; i < L; i++ {
		s := c19BSetting("s")
		vSig("kind", s.kind)
		opts = append(opts, s.bOption(10+i))
		if readBetween {
			c19BObserve(b)
		}
		s.bApplyBuilder(b, 10+i)
		want = s.bSpec(want, 10+i)
	}
	a := NewBatchNode(opts...)
	c19BEqual(c19BObserve(b), want, "batch-chained-builder-vs-spec")
	c19BEqual(c19BObserve(a), want, "batch-constructor-options-vs-spec")
	a2 := NewBatchNode(opts...)
	c19BEqual(c19BObserve(a2), want, "second-batch-node-from-the-same-option-list")
	// configuring one node leaves every other node alone: fresh nodes still have the defaults
	c19FreshDefaults()
	vCover("batch-ctor")
}

func c19FreshDefaults() {
	fn, fb := NewNode(), NewBatchNode()
	vAssert(fn.GetMaxRetries() == 1 && fn.GetWait() == 0 && fn.GetBatchConcurrency() == 0 && fn.GetBatchErrorHandling() == "continue", "other-nodes-keep-the-documented-defaults")
	vAssert(fb.GetMaxRetries() == 1 && fb.GetWait() == 0 && fb.GetBatchConcurrency() == 0 && fb.GetBatchErrorHandling() == "continue", "other-nodes-keep-the-documented-defaults")
}

func VH_C19_defaults() {
	base := NewBaseNode()
	vAssert(base.GetMaxRetries() == 1 && base.GetWait() == 0, "base-defaults-one-attempt-no-wait")
	vAssert(base.GetBatchConcurrency() == 0 && base.GetBatchErrorHandling() == "continue", "base-defaults-sequential-continue")
	n := NewNode()
	vAssert(n.GetMaxRetries() == 1 && n.GetWait() == 0 && n.GetBatchConcurrency() == 0 && n.GetBatchErrorHandling() == "continue", "node-defaults")
	bn := NewBatchNode()
	vAssert(bn.GetMaxRetries() == 1 && bn.GetWait() == 0 && bn.GetBatchConcurrency() == 0 && bn.GetBatchErrorHandling() == "continue", "batch-node-defaults")
	f := NewFlow(n)
	vAssert(f.GetMaxRetries() == 1 && f.GetWait() == 0, "flow-defaults")
	// unknown option types are ignored, not misapplied
	u := NewNode(42, "x", nil)
	c19Equal(c19Observe(u), c19Observe(NewNode()), "unknown-options-ignored")
	// a plain func(*BaseNode) is accepted as a base option
	g := NewNode(func(b *BaseNode) { WithMaxRetries(5)(b) })
	vAssert(g.GetMaxRetries() == 5, "plain-func-option-accepted")
	vCover("defaults")
}

// the two forms install the same function: whatever an Any-style prep function returns (also a value
// that happens to be a flyt.Result) reaches post identically in option form and builder form
func VH_C19_prepValue() {
	payload := vPayloadE("p")
	if vNondet[bool]("payloadIsAResult") {
		vCover("prep-returns-a-result-value")
		payload = NewResult(vNondet[int]("inner"))
	}
	f := func(ctx context.Context, s *SharedStore) (any, error) { return payload, nil }
	var gotA, gotB any
	a := NewNode(WithPrepFuncAny(f), WithPostFuncAny(func(ctx context.Context, s *SharedStore, p, e any) (Action, error) { gotA = p; return "x", nil }))
	b := NewNode().WithPrepFuncAny(f).WithPostFuncAny(func(ctx context.Context, s *SharedStore, p, e any) (Action, error) { gotB = p; return "x", nil })
	_, errA := Run(vNewCtx(), a, NewSharedStore())
	_, errB := Run(vNewCtx(), b, NewSharedStore())
	vAssert(errA == nil && errB == nil, "option-form-vs-builder-form:prep-func")
	vAssert(vSame(gotA, gotB), "option-form-vs-builder-form:prep-func")
	vCover("prep-value")
}

// the documented defaults as behaviour, not as getter values: an unconfigured batch node runs every
// item exactly once, in order, on the calling goroutine, and goes on after a failing item whatever
// the error looks like (plain, wrapping a context error while the run's context is alive, typed
// nil); an unconfigured plain node makes one attempt
func VH_C19_defaultBehaviour() {
	vUnwind(16)
	n := vConcrete(vChoice("n", 4))
	ctorStyle := vChoice("ctor", 2)
	starts := make([]int, n)
	order := make([]int, 0, n)
	main := vThreadID()
	form := vChoice("errForm", 4)
	mkErr := func() error {
		switch form {
		case 1:
			return fmt.Errorf("inner call: %w", context.Canceled)
		case 2:
			return fmt.Errorf("inner call: %w", context.DeadlineExceeded)
		case 3:
			return (*vError)(nil)
		}
		return vNewErr()
	}
	prep := func(ctx context.Context, s *SharedStore) ([]Result, error) { return bItems(n), nil }
	exec := func(ctx context.Context, item Result) (Result, error) {
		k := bIndex(item)
		var err error
		vMon(func() {
			starts[k]++
			order = append(order, k)
			vAssert(vThreadID() == main, "default-batch-is-sequential")
			if vNondetK[bool]("fail", k) {
				vCover("default-batch-item-fails")
				err = mkErr()
			}
		})
		return NewResult(k), err
	}
	posts := 0
	post := func(ctx context.Context, s *SharedStore, items, results []Result) (Action, error) {
		posts++
		return "done", nil
	}
	var b *BatchNodeBuilder
	if ctorStyle == 0 {
		b = NewBatchNode().WithPrepFunc(prep).WithExecFunc(exec).WithPostFunc(post)
	} else {
		vCover("default-batch-built-from-any-style-options")
		b = NewBatchNode(
			WithPrepFuncAny(func(ctx context.Context, s *SharedStore) (any, error) {
				vals := make([]int, n)
				for i := range vals {
					vals[i] = 100 + i
				}
				return vals, nil
			}),
			WithExecFuncAny(func(ctx context.Context, item any) (any, error) {
				r, err := exec(ctx, NewResult(item))
				return r.Value(), err
			}),
			WithPostFuncAny(func(ctx context.Context, s *SharedStore, p, e any) (Action, error) { posts++; return "done", nil }))
	}
	_, err := Run(vNewCtx(), b, NewSharedStore())
	if err != nil || posts != 1 {
		return // the calling convention of post is C06's business
	}
	for i := 0; i < n; i++ {
		vAssert(starts[i] == 1, "default-batch-continues-after-errors-one-attempt-per-item")
	}
	for i := 0; i < n; i++ {
		vAssert(len(order) == n && order[i] == i, "default-batch-is-sequential")
	}
	vCover("default-behaviour")
}
