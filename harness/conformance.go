//go:build verif

package flyt

import (
	"context"
	"errors"
	"time"
)

// Conformance: inputs of the repository's own tests pushed through the engine (no nondeterminism);
// the assertions are the tests' own expectations. Run by tools/selfcheck.sh at setup and usable as
// a quick sanity check of the SSA semantics and the stubs against the real toolchain (each also
// replays natively).

type confRetryNode struct {
	*BaseNode
	attempts int
}

func (n *confRetryNode) Exec(ctx context.Context, p any) (any, error) {
	n.attempts++
	if n.attempts < 3 {
		return nil, errors.New("temporary failure")
	}
	return "success", nil
}

// TestRetryLogic: fail, fail, ok with 3 retries and a 10ms wait
func VH_CONF_retry() {
	n := &confRetryNode{BaseNode: NewBaseNode(WithMaxRetries(3), WithWait(10*time.Millisecond))}
	_, err := Run(vNewCtx(), n, NewSharedStore())
	vAssert(err == nil, "TestRetryLogic:no-error")
	vAssert(n.attempts == 3, "TestRetryLogic:3-attempts")
	vLog("attempts", n.attempts)
	vCover("conf")
}

type confFlowNode struct {
	*BaseNode
	name   string
	action Action
	log    *[]string
}

func (n *confFlowNode) Exec(ctx context.Context, p any) (any, error) {
	*n.log = append(*n.log, n.name)
	return nil, nil
}
func (n *confFlowNode) Post(ctx context.Context, s *SharedStore, p, e any) (Action, error) {
	return n.action, nil
}

// TestFlowExecution / TestNestedFlowExecution: a 3-way branch and a nested sub-flow
func VH_CONF_flow() {
	var log []string
	mk := func(name string, a Action) *confFlowNode {
		return &confFlowNode{BaseNode: NewBaseNode(), name: name, action: a, log: &log}
	}
	start, ok, fail, sub := mk("start", "success"), mk("ok", DefaultAction), mk("fail", DefaultAction), mk("sub", DefaultAction)
	inner := NewFlow(sub)
	flow := NewFlow(start)
	flow.Connect(start, "success", ok).Connect(start, "fail", fail).Connect(ok, DefaultAction, inner)
	err := flow.Run(vNewCtx(), NewSharedStore())
	vAssert(err == nil, "TestFlowExecution:no-error")
	vAssert(len(log) == 3 && log[0] == "start" && log[1] == "ok" && log[2] == "sub", "TestFlowExecution:path")
	vLog("visited", len(log))
	vCover("conf")
}

// TestBatchNodeStopOnError: 5 items, item 3 fails, stop mode, sequential
func VH_CONF_batchStop() {
	processed := 0
	b := NewBatchNode().WithBatchErrorHandling(false).
		WithPrepFunc(func(ctx context.Context, s *SharedStore) ([]Result, error) {
			return []Result{NewResult(1), NewResult(2), NewResult(3), NewResult(4), NewResult(5)}, nil
		}).
		WithExecFunc(func(ctx context.Context, item Result) (Result, error) {
			processed++
			if item.MustInt() == 3 {
				return Result{}, errors.New("error on 3")
			}
			return item, nil
		})
	_, err := Run(vNewCtx(), b, NewSharedStore())
	vAssert(err == nil, "TestBatchNodeStopOnError:no-error")
	vAssert(processed == 3, "TestBatchNodeStopOnError:3-processed")
	vLog("processed", processed)
	vCover("conf")
}

// TestSharedStoreMerge / utility methods
func VH_CONF_store() {
	s := NewSharedStore()
	s.Set("a", 1)
	s.Set("b", "two")
	s.Merge(map[string]any{"b": 2, "c": 3})
	vAssert(s.Len() == 3, "TestSharedStoreMerge:len")
	vAssert(s.GetInt("b") == 2 && s.GetInt("c") == 3 && s.GetInt("a") == 1, "TestSharedStoreMerge:values")
	s.Delete("a")
	vAssert(!s.Has("a") && s.Has("b"), "TestSharedStoreUtility:delete")
	all := s.GetAll()
	all["zz"] = 1
	vAssert(!s.Has("zz"), "TestSharedStoreGetAll:copy")
	s.Clear()
	vAssert(s.Len() == 0 && len(s.Keys()) == 0, "TestSharedStoreUtility:clear")
	vLog("len", s.Len())
	vCover("conf")
}

// TestResultInt table (a selection) and TestResultSlice
func VH_CONF_result() {
	i, ok := NewResult(int8(42)).AsInt()
	vAssert(ok && i == 42, "TestResultInt:int8")
	i, ok = NewResult(uint64(42)).AsInt()
	vAssert(ok && i == 42, "TestResultInt:uint64")
	i, ok = NewResult(42.7).AsInt()
	vAssert(ok && i == 42, "TestResultInt:float64")
	_, ok = NewResult("42").AsInt()
	vAssert(!ok, "TestResultInt:string")
	_, ok = NewResult(nil).AsInt()
	vAssert(!ok, "TestResultInt:nil")
	f, ok := NewResult(float32(2.5)).AsFloat64()
	vAssert(ok && f == 2.5, "TestResultFloat64:float32")
	sl, ok := NewResult([]string{"a", "b"}).AsSlice()
	vAssert(ok && len(sl) == 2 && sl[0] == "a", "TestResultSlice:[]string")
	_, ok = NewResult("not a slice").AsSlice()
	vAssert(!ok, "TestResultSlice:non-slice")
	vAssert(vPanics(func() { NewResult("x").MustInt() }), "TestResultMust:panics")
	var d struct{ A int }
	vAssert(NewResult(d).Bind(&d) == nil, "TestResultBind:same-type")
	vAssert(NewResult(nil).Bind(&d) != nil, "TestResultBind:nil")
	vAssert(NewResult(1).Bind(d) != nil, "TestResultBind:non-pointer")
	vLog("i", i)
	vCover("conf")
}

// TestNodeBuilderChaining: full chain with retries and fallback
func VH_CONF_builder() {
	calls := 0
	n := NewNode().
		WithMaxRetries(2).
		WithExecFuncAny(func(ctx context.Context, p any) (any, error) {
			calls++
			return nil, errors.New("always fails")
		}).
		WithExecFallbackFunc(func(p any, err error) (any, error) { return "fallback", nil }).
		WithPostFuncAny(func(ctx context.Context, s *SharedStore, p, e any) (Action, error) {
			s.Set("result", e)
			return "done", nil
		})
	st := NewSharedStore()
	act, err := Run(vNewCtx(), n, st)
	vAssert(err == nil && act == "done", "TestNodeBuilderChaining:action")
	vAssert(calls == 2, "TestNodeBuilderChaining:2-calls")
	vAssert(st.GetString("result") == "fallback", "TestNodeBuilderChaining:fallback-result")
	vLog("calls", calls)
	vCover("conf")
}
