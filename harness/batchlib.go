//go:build verif

package flyt

import "context"

// Shared scaffolding for the batch harnesses (C06 C07 C08 C09 C11).

const bMax = 16

type bMon struct {
	n, c      int
	stop      bool
	budget    int
	inflight  int
	maxIn     int
	started   [bMax]int // exec invocations per item
	finished  [bMax]int
	thread    [bMax]int // thread that ran the item's (last) exec
	failed    [bMax]bool
	outTok    [bMax]any
	errTok    [bMax]error
	anyPrep   int  // 0: prep returns []Result; 1: []any; 2: a typed slice ([]int) - through the any-style prep option
	nilOut    bool // successful items yield a nil value (a legal outcome)
	errForm   int // 0 plain error values, 1/2 errors wrapping context.DeadlineExceeded / Canceled
	order     [bMax * 4]int // start order (item index)
	nstarts   int
	posts     int
	postItems []Result
	postRes   []Result
	firstFail int // position in start order of the first failing exec, -1
	failThr   int
	afterFail [bMax]bool // item started after the failing exec had returned (same thread)
	ctx       *vCtx
	cancelAt  int // start-order position at which the context was cancelled, -1
	cancelThr int
	cancelled bool
	cancelling bool
	startsAfterCancel     [8]int // per thread
	newAttemptAfterCancel bool
	checkSettled bool
	tids  [8]int
	ntids int
	minStarts int // items must have been started at least this often when post runs (1 in continue mode)
}

// threadIndex maps a thread id (small in the engine, a goroutine id natively) to a dense index
func (m *bMon) threadIndex(tid int) int {
	for i := 0; i < m.ntids; i++ {
		if m.tids[i] == tid {
			return i
		}
	}
	if m.ntids < len(m.tids) {
		m.tids[m.ntids] = tid
		m.ntids++
		return m.ntids - 1
	}
	return len(m.tids) - 1
}

func bConfig(m *bMon) {
	maxn, minn := vParam("n", 3), vParam("nmin", 0)
	n := vNondet[int]("n")
	vAssume(minn <= n && n <= maxn)
	m.n = vConcrete(n)
	maxc, minc := vParam("c", 2), vParam("cmin", -1)
	c := vNondet[int]("c")
	vAssume(minc <= c && c <= maxc)
	m.c = vConcrete(c)
	m.firstFail, m.cancelAt = -1, -1
	m.ctx = vNewCtx()
}

// items: token of item i is the int 100+i
func bItems(n int) []Result {
	items := make([]Result, n)
	for i := range items {
		items[i] = NewResult(100 + i)
	}
	return items
}

func bIndex(item Result) int {
	v, ok := item.Value().(int)
	vAssert(ok && v >= 100 && v < 100+bMax, "exec-receives-an-item-prep-produced")
	return v - 100
}

func bNode(m *bMon, exec func(ctx context.Context, item Result) (Result, error)) *BatchNodeBuilder {
	// the batch settings reach the node through the fluent methods, through constructor options, or
	// through a mixture of both (param styles > 1): the batch behaves the same
	var b *BatchNodeBuilder
	style := 0
	if vParam("styles", 1) > 1 {
		style = vChoice("configStyle", 3)
	}
	switch style {
	case 1:
		vCover("settings-through-constructor-options")
		b = NewBatchNode(WithBatchConcurrency(m.c), WithBatchErrorHandling(!m.stop))
	case 2:
		vCover("settings-through-option-then-fluent")
		b = NewBatchNode(WithBatchErrorHandling(!m.stop)).WithBatchConcurrency(m.c)
	default:
		b = NewBatchNode().WithBatchConcurrency(m.c).WithBatchErrorHandling(!m.stop)
	}
	if m.anyPrep > 0 {
		// the items as plain payloads: the batch wraps them itself
		vCover("prep-payload-is-not-a-result-slice")
		WithPrepFuncAny(func(ctx context.Context, s *SharedStore) (any, error) {
			if m.anyPrep == 1 {
				vals := make([]any, m.n)
				for i := range vals {
					vals[i] = 100 + i
				}
				return vals, nil
			}
			vals := make([]int, m.n)
			for i := range vals {
				vals[i] = 100 + i
			}
			return vals, nil
		}).apply(b.CustomNode)
	} else {
		b.WithPrepFunc(func(ctx context.Context, s *SharedStore) ([]Result, error) { return bItems(m.n), nil })
	}
	return b.
		WithExecFunc(exec).
		WithPostFunc(func(ctx context.Context, s *SharedStore, items, results []Result) (Action, error) {
			vMon(func() {
				m.posts++
				m.postItems, m.postRes = items, results
				if m.checkSettled { // C06's clause; the other batch harnesses only record
					vAssert(m.inflight == 0, "post-runs-after-every-item-has-settled")
					for i := 0; i < m.n; i++ {
						vAssert(m.started[i] == m.finished[i] && m.started[i] >= m.minStarts, "post-runs-after-every-item-has-settled")
					}
				}
			})
			return "done", nil
		})
}

func b2i(b bool) int {
	if b {
		return 1
	}
	return 0
}
