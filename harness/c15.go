//go:build verif

package flyt

// C15 — typed accessors are total, mutually consistent and faithful.

func c15Store(v any) (*SharedStore, string, bool) {
	st := NewSharedStore()
	key := vNondet[string]("key")
	present := vNondet[bool]("present")
	if present {
		st.Set(key, v)
	}
	return st, key, present
}

func VH_C15_string() {
	v, info := vAnyOf("v")
	d := vNondet[string]("default")
	r := NewResult(v)
	var s string
	var ok bool
	vAssert(!vPanics(func() { s, ok = r.AsString() }), "AsString-total")
	vAssert(ok == info.isStr, "AsString-succeeds-exactly-for-strings")
	if ok {
		vCover("is-string")
		vAssert(s == v.(string), "AsString-faithful")
	} else {
		vAssert(s == "", "AsString-zero-on-failure")
	}
	var so string
	vAssert(!vPanics(func() { so = r.AsStringOr(d) }), "AsStringOr-total")
	if ok {
		vAssert(so == s, "AsStringOr-agrees")
	} else {
		vAssert(so == d, "AsStringOr-default")
	}
	var ms string
	p := vPanics(func() { ms = r.MustString() })
	vAssert(p == !ok, "MustString-panics-iff-not-ok")
	vAssert(p || ms == s, "MustString-agrees")
	st, key, present := c15Store(v)
	var g, gd string
	vAssert(!vPanics(func() { g = st.GetString(key); gd = st.GetStringOr(key, d) }), "GetString-total")
	if present && ok {
		vAssert(g == s && gd == s, "store-getter-agrees-with-result-accessor")
	} else {
		vCover("store-default")
		vAssert(g == "" && gd == d, "store-getter-default")
	}
}

func c15RefInt(v any) (int, bool) {
	switch x := v.(type) {
	case int:
		return x, true
	case int8:
		return int(x), true
	case int16:
		return int(x), true
	case int32:
		return int(x), true
	case int64:
		return int(x), true
	case uint:
		return int(x), true
	case uint8:
		return int(x), true
	case uint16:
		return int(x), true
	case uint32:
		return int(x), true
	case uint64:
		return int(x), true
	case float32:
		return int(x), true
	case float64:
		return int(x), true
	}
	return 0, false
}

func VH_C15_int() {
	v, info := vAnyOf("v")
	d := vNondet[int]("default")
	r := NewResult(v)
	var i int
	var ok bool
	vAssert(!vPanics(func() { i, ok = r.AsInt() }), "AsInt-total")
	vAssert(ok == (info.numeric > 0), "AsInt-succeeds-exactly-for-documented-numeric-types")
	want, _ := c15RefInt(v)
	vSig("numeric", info.numeric)
	vAssert(i == want, "AsInt-yields-Go-conversion")
	if ok {
		vCover("is-numeric")
	}
	var io int
	vAssert(!vPanics(func() { io = r.AsIntOr(d) }), "AsIntOr-total")
	if ok {
		vAssert(io == i, "AsIntOr-agrees")
	} else {
		vAssert(io == d, "AsIntOr-default")
	}
	var mi int
	p := vPanics(func() { mi = r.MustInt() })
	vAssert(p == !ok, "MustInt-panics-iff-not-ok")
	vAssert(p || mi == i, "MustInt-agrees")
	st, key, present := c15Store(v)
	var g, gd int
	vAssert(!vPanics(func() { g = st.GetInt(key); gd = st.GetIntOr(key, d) }), "GetInt-total")
	vSig("numeric", info.numeric)
	if present && ok {
		vAssert(g == want && gd == want, "store-getter-agrees-with-result-accessor")
	} else {
		vAssert(g == 0 && gd == d, "store-getter-default")
	}
}

func c15RefFloat(v any) (float64, bool) {
	switch x := v.(type) {
	case int:
		return float64(x), true
	case int8:
		return float64(x), true
	case int16:
		return float64(x), true
	case int32:
		return float64(x), true
	case int64:
		return float64(x), true
	case uint:
		return float64(x), true
	case uint8:
		return float64(x), true
	case uint16:
		return float64(x), true
	case uint32:
		return float64(x), true
	case uint64:
		return float64(x), true
	case float32:
		return float64(x), true
	case float64:
		return x, true
	}
	return 0, false
}

func VH_C15_float() {
	v, info := vAnyOf("v")
	d := vNondet[float64]("default")
	r := NewResult(v)
	var f float64
	var ok bool
	vAssert(!vPanics(func() { f, ok = r.AsFloat64() }), "AsFloat64-total")
	vAssert(ok == (info.numeric > 0), "AsFloat64-succeeds-exactly-for-documented-numeric-types")
	want, _ := c15RefFloat(v)
	vSig("numeric", info.numeric)
	vAssert(vSame(f, want), "AsFloat64-yields-Go-conversion")
	var fo float64
	vAssert(!vPanics(func() { fo = r.AsFloat64Or(d) }), "AsFloat64Or-total")
	if ok {
		vCover("is-numeric")
		vAssert(vSame(fo, f), "AsFloat64Or-agrees")
	} else {
		vAssert(vSame(fo, d), "AsFloat64Or-default")
	}
	var mf float64
	p := vPanics(func() { mf = r.MustFloat64() })
	vAssert(p == !ok, "MustFloat64-panics-iff-not-ok")
	vAssert(p || vSame(mf, f), "MustFloat64-agrees")
	st, key, present := c15Store(v)
	var g, gd float64
	vAssert(!vPanics(func() { g = st.GetFloat64(key); gd = st.GetFloat64Or(key, d) }), "GetFloat64-total")
	vSig("numeric", info.numeric)
	if present && ok {
		vAssert(vSame(g, want) && vSame(gd, want), "store-getter-agrees-with-result-accessor")
	} else {
		vAssert(g == 0 && vSame(gd, d), "store-getter-default")
	}
}

func VH_C15_boolmap() {
	v, info := vAnyOf("v")
	r := NewResult(v)
	d := vNondet[bool]("default")
	var b, ok bool
	vAssert(!vPanics(func() { b, ok = r.AsBool() }), "AsBool-total")
	vAssert(ok == info.isBool, "AsBool-succeeds-exactly-for-bools")
	if ok {
		vCover("is-bool")
		vAssert(b == v.(bool), "AsBool-faithful")
	}
	var bo bool
	vAssert(!vPanics(func() { bo = r.AsBoolOr(d) }), "AsBoolOr-total")
	vAssert(bo == (ok && b || !ok && d), "AsBoolOr-agrees")
	var mb bool
	p := vPanics(func() { mb = r.MustBool() })
	vAssert(p == !ok && (p || mb == b), "MustBool-panics-iff-not-ok")
	st, key, present := c15Store(v)
	var g, gd bool
	vAssert(!vPanics(func() { g = st.GetBool(key); gd = st.GetBoolOr(key, d) }), "GetBool-total")
	if present && ok {
		vAssert(g == b && gd == b, "store-bool-getter-agrees")
	} else {
		vAssert(!g && gd == d, "store-bool-getter-default")
	}
	// map family
	dm := map[string]any{"default": 1}
	var m map[string]any
	var mok bool
	vAssert(!vPanics(func() { m, mok = r.AsMap() }), "AsMap-total")
	vAssert(mok == info.isMap, "AsMap-succeeds-exactly-for-map[string]any")
	if mok {
		vCover("is-map")
		vAssert(vSame(m, v), "AsMap-faithful")
	} else {
		vAssert(m == nil, "AsMap-nil-on-failure")
	}
	var mo map[string]any
	vAssert(!vPanics(func() { mo = r.AsMapOr(dm) }), "AsMapOr-total")
	if mok {
		vAssert(vSame(mo, m), "AsMapOr-agrees")
	} else {
		vAssert(vSame(mo, dm), "AsMapOr-default")
	}
	var mm map[string]any
	pm := vPanics(func() { mm = r.MustMap() })
	vAssert(pm == !mok && (pm || vSame(mm, m)), "MustMap-panics-iff-not-ok")
	var gm, gmd map[string]any
	vAssert(!vPanics(func() { gm = st.GetMap(key); gmd = st.GetMapOr(key, dm) }), "GetMap-total")
	if present && mok {
		vAssert(vSame(gm, m) && vSame(gmd, m), "store-map-getter-agrees")
	} else {
		vAssert(gm == nil && vSame(gmd, dm), "store-map-getter-default")
	}
}

func VH_C15_slice() {
	v, info := vAnyOf("v")
	r := NewResult(v)
	// the slice conversion utility: nil -> empty non-nil, slice -> same elements, other -> [v]
	var ts []any
	vAssert(!vPanics(func() { ts = ToSlice(v) }), "ToSlice-total")
	if v == nil {
		vCover("nil")
		vAssert(ts != nil && len(ts) == 0, "ToSlice-nil-is-empty-non-nil")
	} else if info.isSlice {
		vCover("is-slice")
		vAssert(len(ts) == info.n, "ToSlice-keeps-length")
		for i := 0; i < len(info.elems) && i < len(ts); i++ {
			vAssert(vSame(ts[i], info.elems[i]), "ToSlice-keeps-elements-in-order")
		}
	} else {
		vCover("non-slice")
		vAssert(len(ts) == 1 && vSame(ts[0], v), "ToSlice-wraps-a-single-value")
	}
	var s []any
	var ok bool
	vSig("type", 0)
	vAssert(!vPanics(func() { s, ok = r.AsSlice() }), "AsSlice-total")
	vAssert(ok == info.isSlice, "AsSlice-succeeds-exactly-for-slices")
	if ok && info.isSlice {
		vAssert(len(s) == len(ts), "AsSlice-same-length-as-ToSlice")
		for i := 0; i < len(s) && i < len(ts); i++ {
			vAssert(vSame(s[i], ts[i]), "AsSlice-same-elements-in-order")
		}
	}
	if !ok {
		vAssert(s == nil, "AsSlice-nil-on-failure")
	}
	d := []any{"default"}
	var so []any
	vAssert(!vPanics(func() { so = r.AsSliceOr(d) }), "AsSliceOr-total")
	if ok {
		vAssert(len(so) == len(s), "AsSliceOr-agrees")
	} else {
		vAssert(vSame(so, d), "AsSliceOr-default")
	}
	var ms []any
	p := vPanics(func() { ms = r.MustSlice() })
	vAssert(p == !ok, "MustSlice-panics-iff-not-ok")
	vAssert(p || len(ms) == len(s), "MustSlice-agrees")
	st, key, present := c15Store(v)
	var g, gd []any
	vAssert(!vPanics(func() { g = st.GetSlice(key); gd = st.GetSliceOr(key, d) }), "GetSlice-total")
	if present && info.isSlice {
		vAssert(len(g) == info.n && len(gd) == info.n, "store-slice-getter-agrees")
		for i := 0; i < len(g) && i < len(ts); i++ {
			vAssert(vSame(g[i], ts[i]), "store-slice-getter-same-elements")
		}
	} else {
		vAssert(g == nil && vSame(gd, d), "store-slice-getter-default")
	}
}

func VH_C15_as() {
	v, info := vAnyOf("v")
	r := NewResult(v)
	var i int
	var ok bool
	vAssert(!vPanics(func() { i, ok = As[int](r) }), "As[int]-total")
	vAssert(ok == (info.numeric == 1), "As[int]-succeeds-exactly-for-int")
	if ok {
		vCover("as-int")
		vAssert(i == v.(int), "As[int]-faithful")
	}
	var s string
	var sok bool
	vAssert(!vPanics(func() { s, sok = As[string](r) }), "As[string]-total")
	vAssert(sok == info.isStr && (!sok || s == v.(string)), "As[string]-faithful")
	p := vPanics(func() { MustAs[int](r) })
	vAssert(p == !ok, "MustAs-panics-iff-not-ok")
	vAssert(!vPanics(func() { r.IsNil(); r.Value(); r.IsError(); r.Error() }), "plain-accessors-total")
	vAssert(r.IsNil() == (v == nil), "IsNil-agrees")
}

// Bind is an accessor too: for a value of any type and a handful of destination types (among them
// the pointee type of the pointer values of the catalogue) neither the result's nor the store's
// Bind panics; what it returns is C16's business
func VH_C15_bind() {
	v, _ := vAnyOf("v")
	dk := vChoice("dest", 6)
	try := func(bind func(dest any) error) bool {
		return vPanics(func() {
			switch dk {
			case 0:
				var d int
				bind(&d)
			case 1:
				var d string
				bind(&d)
			case 2:
				var d map[string]any
				bind(&d)
			case 3:
				var d any
				bind(&d)
			case 4:
				var d vStructCmp
				bind(&d)
			default:
				var d *int
				bind(&d)
			}
		})
	}
	r := NewResult(v)
	vAssert(!try(func(d any) error { return r.Bind(d) }), "result-bind-never-panics")
	st := NewSharedStore()
	st.Set("k", v)
	vAssert(!try(func(d any) error { return st.Bind("k", d) }), "store-bind-never-panics")
	vCover("bind-total")
}
