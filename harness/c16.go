//go:build verif

package flyt

import "encoding/json"

// C16 — Bind: identity for matching types, JSON round-trip otherwise, never panics.

type c16T struct {
	A int
	B string
}
type c16U struct {
	X float64
}

// c16Value: the value to bind (forks on the kind; contents symbolic)
func c16Value() (any, int) {
	k := vChoice("valueKind", 9)
	switch k {
	case 0:
		return map[string]any{"A": vNondet[int]("v.a"), "B": "x"}, k
	case 1:
		return c16T{A: vNondet[int]("v.a"), B: vNondet[string]("v.b")}, k
	case 2:
		return vNondet[int]("v.i"), k
	case 3:
		return vNondet[string]("v.s"), k
	case 4:
		return &c16T{A: vNondet[int]("v.a")}, k
	case 5:
		return make(chan int), k // not marshalable
	case 6:
		return []any{vNondet[int]("v.e")}, k
	case 7:
		// generic containers holding nil containers: nil-ness is part of the value
		return map[string]any{"id": vNondet[int]("v.a"), "tags": []any(nil), "meta": map[string]any(nil)}, k
	default:
		// the library's own Result type as the value: a struct value like any other
		return NewResult(c16T{A: vNondet[int]("v.a")}), k
	}
}

type c16Outcome struct {
	isErr bool
	val   any // *dest afterwards (boxed), nil when there is no addressable destination
}

// c16Do binds through `bind` into a destination of the chosen shape and reports the outcome; the
// twin computes the reference outcome with encoding/json on a twin destination.
func c16Do(shape int, v any, vk int, bind func(dest any) error, ref bool) c16Outcome {
	call := func(dest any) error {
		if ref {
			b, err := json.Marshal(v)
			if err != nil {
				return err
			}
			return json.Unmarshal(b, dest)
		}
		return bind(dest)
	}
	switch shape {
	case 0: // pointer to the value's own type
		switch vk {
		case 0:
			var d map[string]any
			err := call(&d)
			return c16Outcome{err != nil, d}
		case 1:
			var d c16T
			err := call(&d)
			return c16Outcome{err != nil, d}
		case 2:
			var d int
			err := call(&d)
			return c16Outcome{err != nil, d}
		case 3:
			var d string
			err := call(&d)
			return c16Outcome{err != nil, d}
		case 4:
			var d *c16T
			err := call(&d)
			return c16Outcome{err != nil, d}
		case 5:
			var d chan int
			err := call(&d)
			return c16Outcome{err != nil, d}
		case 6:
			var d []any
			err := call(&d)
			return c16Outcome{err != nil, d}
		case 7:
			var d map[string]any
			err := call(&d)
			return c16Outcome{err != nil, d}
		default:
			var d Result
			err := call(&d)
			return c16Outcome{err != nil, d}
		}
	case 1: // a compatible struct
		var d c16T
		err := call(&d)
		return c16Outcome{err != nil, d}
	case 2: // an unrelated struct
		var d c16U
		err := call(&d)
		return c16Outcome{err != nil, d}
	case 3:
		var d int
		err := call(&d)
		return c16Outcome{err != nil, d}
	case 4: // interface destination
		var d any
		err := call(&d)
		return c16Outcome{err != nil, d}
	case 5:
		var d map[string]any
		err := call(&d)
		return c16Outcome{err != nil, d}
	case 6: // typed nil pointer
		err := call((*c16T)(nil))
		return c16Outcome{err != nil, nil}
	case 13: // typed nil pointer of the value's OWN type
		var err error
		switch vk {
		case 0, 7:
			err = call((*map[string]any)(nil))
		case 2:
			err = call((*int)(nil))
		case 3:
			err = call((*string)(nil))
		case 6:
			err = call((*[]any)(nil))
		case 4:
			err = call((**c16T)(nil))
		default:
			err = call((*c16T)(nil))
		}
		return c16Outcome{err != nil, nil}
	case 7: // non-pointer destination
		err := call(c16T{})
		return c16Outcome{err != nil, nil}
	case 8: // untyped nil
		err := call(nil)
		return c16Outcome{err != nil, nil}
	case 11: // a struct destination that already holds defaults (json merges into it)
		d := c16T{A: 7, B: "keep"}
		err := call(&d)
		return c16Outcome{err != nil, d}
	case 12: // a map destination that already holds a key
		d := map[string]any{"old": 1}
		err := call(&d)
		return c16Outcome{err != nil, d}
	case 9: // a named type of the same kind as a string value (a *different* type: JSON path)
		var d vMyStr
		err := call(&d)
		return c16Outcome{err != nil, d}
	default: // a named int type
		var d vMyInt
		err := call(&d)
		return c16Outcome{err != nil, d}
	}
}

const c16Shapes = 14

func c16Check(v any, vk, shape int, got c16Outcome, panicked bool) {
	vAssert(!panicked, "bind-never-panics")
	if panicked {
		return
	}
	if (shape >= 6 && shape <= 8) || shape == 13 {
		vCover("bad-destination")
		vAssert(got.isErr, "nil-or-non-pointer-destination-is-an-error")
		return
	}
	sameType := shape == 0 || ((shape == 1 || shape == 11) && vk == 1) || (shape == 3 && vk == 2) || ((shape == 5 || shape == 12) && (vk == 0 || vk == 7))
	if shape >= 11 {
		vCover("pre-populated-destination")
	}
	if sameType {
		vCover("same-type")
		vAssert(!got.isErr, "same-type-bind-succeeds")
		// "unchanged" is about content (an implementation may hand out the very map or an equal
		// copy of it): same keys and elements, same nil-ness, pointers identical
		vAssert(vSameDeep(got.val, v), "same-type-bind-copies-the-value-unchanged")
		return
	}
	vCover("json-path")
	want := c16Do(shape, v, vk, nil, true)
	vAssert(got.isErr == want.isErr, "bind-errs-exactly-when-the-json-round-trip-errs")
	if !got.isErr && !want.isErr {
		vCover("json-ok")
		vAssert(vSame(got.val, want.val), "bind-result-equals-the-json-round-trip")
	}
	if got.isErr {
		vCover("json-err")
	}
}

func VH_C16_result() {
	v, vk := c16Value()
	shape := vChoice("shape", c16Shapes)
	r := NewResult(v)
	var got c16Outcome
	p := vPanics(func() { got = c16Do(shape, v, vk, func(d any) error { return r.Bind(d) }, false) })
	c16Check(v, vk, shape, got, p)
	// the source is not modified
	if vk == 0 {
		m := v.(map[string]any)
		vAssert(len(m) == 2, "bind-does-not-modify-the-source")
	}
	if vk == 7 {
		vCover("value-with-nil-containers")
	}
	if vk == 8 {
		vCover("value-of-type-Result")
	}
}

func VH_C16_store() {
	v, vk := c16Value()
	shape := vChoice("shape", c16Shapes)
	st := NewSharedStore()
	key := vNondet[string]("key")
	st.Set(key, v)
	var got c16Outcome
	p := vPanics(func() { got = c16Do(shape, v, vk, func(d any) error { return st.Bind(key, d) }, false) })
	c16Check(v, vk, shape, got, p)
	// store and result agree on every non-nil value
	var viaResult c16Outcome
	p2 := vPanics(func() { viaResult = c16Do(shape, v, vk, func(d any) error { return NewResult(v).Bind(d) }, false) })
	vAssert(!p2 && viaResult.isErr == got.isErr, "store-bind-and-result-bind-agree-on-errors")
	if !got.isErr && !viaResult.isErr && (shape < 6 || shape > 8) {
		vAssert(vSameDeep(got.val, viaResult.val), "store-bind-and-result-bind-agree-on-values")
	}
	sv, _ := st.Get(key)
	vAssert(vSame(sv, v), "bind-does-not-modify-the-stored-value")
}

func VH_C16_errors() {
	st := NewSharedStore()
	key := vNondet[string]("key")
	var d c16T
	// missing key
	var err error
	vAssert(!vPanics(func() { err = st.Bind(key, &d) }), "missing-key-does-not-panic")
	vAssert(err != nil, "missing-key-is-an-error")
	// stored nil and nil result value
	st.Set(key, nil)
	vAssert(!vPanics(func() { err = NewResult(nil).Bind(&d) }), "nil-result-does-not-panic")
	vAssert(err != nil, "nil-result-value-is-an-error")
	vAssert(!vPanics(func() { err = st.Bind(key, &d) }), "stored-nil-does-not-panic")
	// MustBind panics exactly when Bind fails
	vAssert(vPanics(func() { NewResult(nil).MustBind(&d) }), "mustbind-panics-on-failure")
	vAssert(!vPanics(func() { NewResult(c16T{A: 1}).MustBind(&d) }), "mustbind-ok")
	vAssert(d.A == 1, "mustbind-same-type-copies")
	vCover("errors")
}

// Bind answers for the value stored NOW: a first Bind of the key (through the JSON path), then the
// key is rewritten by any of the store's writers, then Bind again — judged against the new value
func VH_C16_storeSeq() {
	v1, vk1 := c16Value()
	st := NewSharedStore()
	key := vNondet[string]("key")
	st.Set(key, v1)
	var first c16Outcome
	p0 := vPanics(func() { first = c16Do(4, v1, vk1, func(d any) error { return st.Bind(key, d) }, false) })
	vAssume(!p0)
	_ = first
	v2, vk2 := c16Value()
	switch vChoice("rewrittenBy", 4) {
	case 0:
		vCover("rewritten-by-set")
		st.Set(key, v2)
	case 1:
		vCover("rewritten-by-merge")
		st.Merge(map[string]any{key: v2})
	case 2:
		vCover("rewritten-by-delete-and-merge")
		st.Delete(key)
		st.Merge(map[string]any{key: v2})
	default:
		vCover("rewritten-by-clear-and-set")
		st.Clear()
		st.Set(key, v2)
	}
	shape := vChoice("shape", c16Shapes)
	var got c16Outcome
	p := vPanics(func() { got = c16Do(shape, v2, vk2, func(d any) error { return st.Bind(key, d) }, false) })
	c16Check(v2, vk2, shape, got, p)
}
