//go:build verif

package flyt

import (
	"context"
	"errors"
	"fmt"
)

// C05 — cancellation stops runs and flows and is reported as such.

type c05Mon struct {
	kind      int // node kind of every probe of the run: 0 struct node on BaseNode, 1 plain Node (no retry settings, no fallback), 2 function-style node
	kindSet   bool
	ctx       *vRunCtx
	cancelled bool
	calls     int
	lastEnds  bool // the last callback's outcome ends the reference path
	skippedAttempts bool // the fallback was entered under cancellation before the budget was used up
}

// maybeCancel: one symbolic cancellation point per callback invocation (callbacks are atomic for
// the sequential framework code, so entry and exit are indistinguishable to it).
func (m *c05Mon) maybeCancel() {
	if !m.cancelled && vNondet[bool]("cancelHere") {
		m.ctx.cancel(vNondet[bool]("deadlineKind"))
		m.cancelled = true
	}
}

type c05Probe struct {
	*BaseNode
	m       *c05Mon
	budget  int
	execs   int
	hasSucc bool
	node    Node // what is run / connected: the probe itself or a wrapper of another node kind
}

// a Node implemented from scratch: no BaseNode, hence no retry settings and no fallback
type c05Plain struct{ p *c05Probe }

func (n c05Plain) Prep(ctx context.Context, s *SharedStore) (any, error) { return n.p.Prep(ctx, s) }
func (n c05Plain) Exec(ctx context.Context, v any) (any, error)          { return n.p.Exec(ctx, v) }
func (n c05Plain) Post(ctx context.Context, s *SharedStore, v, e any) (Action, error) {
	return n.p.Post(ctx, s, v, e)
}

func (n *c05Probe) Prep(ctx context.Context, s *SharedStore) (any, error) {
	vAssert(!n.m.cancelled, "no-node-started-after-cancellation")
	n.m.calls++
	if vNondet[bool]("prepFail") {
		n.m.lastEnds = true
		n.m.maybeCancel()
		return nil, vNewErr()
	}
	n.m.lastEnds = false
	n.m.maybeCancel()
	if n.m.cancelled {
		vCover("cancel-in-prep")
	}
	return nil, nil
}

func (n *c05Probe) Exec(ctx context.Context, p any) (any, error) {
	vAssert(!n.m.cancelled, "no-attempt-started-after-cancellation")
	n.m.calls++
	n.execs++
	was := n.m.cancelled
	if vNondet[bool]("execFail") {
		n.m.lastEnds = n.m.kind == 1 // a retry or the fallback follows (a plain node has neither: its failure ends the path)
		n.m.maybeCancel()
		if n.m.cancelled && !was {
			if n.execs < n.budget {
				vCover("cancel-in-failing-attempt")
			} else {
				vCover("cancel-in-last-failing-attempt")
			}
			if vNondet[bool]("attemptFailsWithATimeoutError") {
				// ... or a socket-style timeout error of its own (Timeout() == true, no context error inside)
				vCover("attempt-returns-a-timeout-error")
				return nil, fmt.Errorf("fetch: %w", vTimeoutErr{})
			}
			if vNondet[bool]("attemptFailsWithTheContextsError") {
				// the usual way to fail under cancellation: give up and hand back ctx.Err()
				vCover("attempt-returns-ctx-err")
				return nil, ctx.Err()
			}
		}
		return nil, vNewErr()
	}
	n.m.lastEnds = false // post follows
	n.m.maybeCancel()
	return nil, nil
}

func (n *c05Probe) ExecFallback(p any, err error) (any, error) {
	n.m.calls++
	was := n.m.cancelled
	if was && n.execs < n.budget {
		// attempts were skipped because of the cancellation: the run has been cut short, whatever
		// the framework goes on to call
		n.m.skippedAttempts = true
	}
	if vNondet[bool]("fbFail") {
		n.m.lastEnds = true
		n.m.maybeCancel()
		return nil, vNewErr()
	}
	n.m.lastEnds = false
	n.m.maybeCancel()
	if n.m.cancelled && !was {
		vCover("cancel-in-fallback")
	}
	return nil, nil
}

func (n *c05Probe) Post(ctx context.Context, s *SharedStore, p, e any) (Action, error) {
	n.m.calls++
	was := n.m.cancelled
	if vNondet[bool]("postFail") {
		n.m.lastEnds = true
		n.m.maybeCancel()
		return "next", vNewErr()
	}
	n.m.lastEnds = !n.hasSucc
	n.m.maybeCancel()
	if n.m.cancelled && !was {
		if n.hasSucc {
			vCover("cancel-in-post-with-successor")
		} else {
			vCover("cancel-in-post-of-last-node")
		}
	}
	return "next", nil
}

func c05NewProbe(m *c05Mon, hasSucc bool) *c05Probe {
	maxN := vParam("N", 2)
	N := vNondet[int]("N")
	vAssume(1 <= N && N <= maxN)
	if !m.kindSet {
		m.kind, m.kindSet = vChoice("nodeKind", 3), true
	}
	p := &c05Probe{BaseNode: NewBaseNode(WithMaxRetries(N), WithWait(0)), m: m, budget: N, hasSucc: hasSucc}
	switch m.kind {
	case 0:
		p.node = p
	case 1:
		vCover("plain-node-kind")
		vAssume(N == 1)
		p.node = c05Plain{p}
	default:
		vCover("function-style-node-kind")
		p.node = NewNode(WithMaxRetries(N),
			WithPrepFuncAny(func(ctx context.Context, s *SharedStore) (any, error) { return p.Prep(ctx, s) }),
			WithExecFuncAny(func(ctx context.Context, v any) (any, error) { return p.Exec(ctx, v) }),
			WithExecFallbackFunc(p.ExecFallback),
			WithPostFuncAny(func(ctx context.Context, s *SharedStore, v, e any) (Action, error) { return p.Post(ctx, s, v, e) }))
	}
	return p
}

func (m *c05Mon) finish(err error) {
	vLog("calls", m.calls)
	if m.calls == 0 {
		vFail("no callback ran in a run that was not pre-cancelled")
	}
	if m.skippedAttempts {
		vCover("attempts-skipped-under-cancellation")
		vAssert(err != nil, "cut-short-run-does-not-report-success")
		vAssert(err != nil && errors.Is(err, m.ctx.Err()), "cut-short-run-error-matches-ctx-error")
	}
	if !m.lastEnds {
		// the framework stopped before the reference path was complete
		if !m.cancelled {
			return // stopping early without any cancellation is not this property's business (C01/C03)
		}
		vCover("cut-short")
		vAssert(err != nil, "cut-short-run-does-not-report-success")
		vAssert(err != nil && errors.Is(err, m.ctx.Err()), "cut-short-run-error-matches-ctx-error")
	} else {
		vCover("ran-to-its-end")
	}
	if m.ctx.Err() == vErrDeadline {
		vCover("deadline-kind")
	}
	if m.ctx.Err() == context.Canceled {
		vCover("real-context")
	}
}

func VH_C05_single() {
	vUnwind(6)
	m := &c05Mon{ctx: vNewRunCtx("run")}
	n := c05NewProbe(m, false)
	_, err := Run(m.ctx, n.node, NewSharedStore())
	m.finish(err)
}

func VH_C05_linear() {
	vUnwind(6)
	m := &c05Mon{ctx: vNewRunCtx("run")}
	k := vParam("nodes", 3)
	nodes := make([]*c05Probe, k)
	for i := range nodes {
		nodes[i] = c05NewProbe(m, i+1 < k)
	}
	flow := NewFlow(nodes[0].node)
	for i := 0; i+1 < k; i++ {
		flow.Connect(nodes[i].node, "next", nodes[i+1].node)
	}
	err := flow.Run(m.ctx, NewSharedStore())
	m.finish(err)
}

// outer(p0 -> inner(a -> b) -> p3): cancellation inside the inner flow must stop the outer one too
func VH_C05_nested() {
	vUnwind(6)
	m := &c05Mon{ctx: vNewRunCtx("run")}
	p0 := c05NewProbe(m, true)
	a := c05NewProbe(m, true)
	b := c05NewProbe(m, true)
	p3 := c05NewProbe(m, false)
	inner := NewFlow(a.node)
	inner.Connect(a.node, "next", b.node)
	outer := NewFlow(p0.node)
	outer.Connect(p0.node, "next", inner)
	outer.Connect(inner, "next", p3.node)
	err := outer.Run(m.ctx, NewSharedStore())
	if m.cancelled && a.execs > 0 && p3.execs == 0 && !m.lastEnds {
		vCover("cancel-inside-inner-flow")
	}
	m.finish(err)
}

type c05FlowWrapper struct {
	*Flow
	m *c05Mon
}

func (w *c05FlowWrapper) Prep(ctx context.Context, s *SharedStore) (any, error) {
	w.m.calls++
	return w.Flow.Prep(ctx, s)
}
func (w *c05FlowWrapper) Exec(ctx context.Context, p any) (any, error) {
	w.m.calls++
	return w.Flow.Exec(ctx, p)
}

// context already done before the run: no callback at all, error matches the context's error
func VH_C05_predone() {
	vUnwind(6)
	m := &c05Mon{ctx: vNewRunCtx("run")}
	m.ctx.cancel(vNondet[bool]("deadlineKind"))
	m.cancelled = true
	which := vChoice("shape", 5)
	var err error
	switch which {
	case 4:
		// a user type that embeds *Flow and has its own Prep and Exec (an orchestrating node that
		// prepares something first) is a node like any other for Run
		vCover("pre-cancelled-node-embedding-a-flow")
		w := &c05FlowWrapper{Flow: NewFlow(c05NewProbe(m, false).node), m: m}
		_, err = Run(m.ctx, w, NewSharedStore())
	case 3:
		// a flow whose START node is a batch node, started through flow.Run
		vCover("pre-cancelled-flow-starting-with-a-batch-node")
		b := NewBatchNode().
			WithPrepFunc(func(ctx context.Context, s *SharedStore) ([]Result, error) { m.calls++; return []Result{NewResult(1)}, nil }).
			WithExecFunc(func(ctx context.Context, it Result) (Result, error) { m.calls++; return it, nil }).
			WithPostFunc(func(ctx context.Context, s *SharedStore, items, results []Result) (Action, error) { m.calls++; return "done", nil })
		f := NewFlow(b)
		err = f.Run(m.ctx, NewSharedStore())
	case 0:
		_, err = Run(m.ctx, c05NewProbe(m, false).node, NewSharedStore())
	case 1:
		a := c05NewProbe(m, true)
		b := c05NewProbe(m, false)
		f := NewFlow(a.node)
		f.Connect(a.node, "next", b.node)
		err = f.Run(m.ctx, NewSharedStore())
	default:
		a := c05NewProbe(m, false)
		inner := NewFlow(a.node)
		outer := NewFlow(inner)
		err = outer.Run(m.ctx, NewSharedStore())
	}
	vCover("pre-cancelled")
	vAssert(m.calls == 0, "no-callback-when-context-already-done")
	vAssert(err != nil && errors.Is(err, m.ctx.Err()), "pre-cancelled-error-matches-ctx-error")
}

// a batch node is a node of the flow like any other: it is not started once the context has been
// cancelled in (or right after) the node before it
func VH_C05_batchSuccessor() {
	vUnwind(6)
	m := &c05Mon{ctx: vNewRunCtx("run")}
	a := c05NewProbe(m, true)
	b := NewBatchNode().
		WithBatchConcurrency(vChoice("concurrency", 2)).
		WithPrepFunc(func(ctx context.Context, s *SharedStore) ([]Result, error) {
			vAssert(!m.cancelled, "no-node-started-after-cancellation")
			m.calls++
			m.lastEnds = false
			return []Result{NewResult(1)}, nil
		}).
		WithExecFunc(func(ctx context.Context, it Result) (Result, error) { return it, nil }).
		WithPostFunc(func(ctx context.Context, s *SharedStore, items, results []Result) (Action, error) {
			m.lastEnds = true
			return "done", nil
		})
	var flow *Flow
	if vNondet[bool]("nested") {
		inner := NewFlow(a.node)
		flow = NewFlow(inner)
		flow.Connect(inner, "next", b)
	} else {
		flow = NewFlow(a.node)
		flow.Connect(a.node, "next", b)
	}
	err := flow.Run(m.ctx, NewSharedStore())
	vCover("batch-successor")
	m.finish(err)
}
