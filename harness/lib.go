//go:build verif

package flyt

// Shared harness helpers (plain Go, interpreted by the engine and compiled natively for replay).

import (
	"context"
	"fmt"
	"sync/atomic"
	"time"
)

// vError is a harness error value with identity.
type vError struct{ id int }

func (e *vError) Error() string { return "verr" }

var vErrSeq int

func vNewErr() error { vErrSeq++; return &vError{id: vErrSeq} }

// vFailure builds the error of a failing callback in one of several forms a user callback may
// legitimately produce (forks on the form): a plain error value, an error that wraps a context
// error although the run's own context is alive (an inner timeout), or a typed-nil pointer error
// (`var e *MyErr; return e` — a non-nil error interface all the same).
func vFailure(label string) error {
	switch vChoice(label+".errForm", 4) {
	case 0:
		return vNewErr()
	case 1:
		return fmt.Errorf("inner call: %w", context.Canceled)
	case 2:
		return fmt.Errorf("inner call: %w", context.DeadlineExceeded)
	default:
		return (*vError)(nil)
	}
}

// vSliceErr is an error type that is not comparable (a slice of messages, as validators return)
type vSliceErr []string

func (e vSliceErr) Error() string { return "validation failed" }

// vTimeoutErr is a net-style timeout error: Timeout() is true, it wraps no context error
type vTimeoutErr struct{}

func (vTimeoutErr) Error() string { return "i/o timeout" }
func (vTimeoutErr) Timeout() bool { return true }

// vCustomErr is a custom-typed error (for errors.As checks).
type vCustomErr struct{ code int }

func (e vCustomErr) Error() string { return "vcustom" }

// vCtx is the harness's context implementation: cancellation is synchronous and explicit. Its state
// is one atomic word (so that reading it from worker goroutines is race free and a visible
// operation for the scheduler) plus the done channel.
type vCtx struct {
	done chan struct{}
	flag int32 // 0 live, 1 cancelled, 2 deadline exceeded
}

var vErrCanceled error = &vError{id: -1}
var vErrDeadline error = &vError{id: -2}

func vNewCtx() *vCtx { return &vCtx{done: make(chan struct{})} }

func (c *vCtx) Deadline() (time.Time, bool) { return time.Time{}, false }
func (c *vCtx) Done() <-chan struct{}       { return c.done }
func (c *vCtx) Value(key any) any           { return nil }
func (c *vCtx) Err() error {
	switch atomic.LoadInt32(&c.flag) {
	case 1:
		return vErrCanceled
	case 2:
		return vErrDeadline
	}
	return nil
}

func (c *vCtx) cancel(deadline bool) {
	if atomic.LoadInt32(&c.flag) != 0 {
		return
	}
	if deadline {
		atomic.StoreInt32(&c.flag, 2)
	} else {
		atomic.StoreInt32(&c.flag, 1)
	}
	close(c.done)
}

var _ context.Context = (*vCtx)(nil)

// vRunCtx is the context of one harness run together with its cancel function. Three kinds: the
// harness's own vCtx, a real context.WithCancel, and a real context.WithCancelCause cancelled with a
// cause different from its Err() (the real context package is interpreted from its source).
type vRunCtx struct {
	context.Context
	cancelFn func(deadline bool)
}

func (r *vRunCtx) cancel(deadline bool) { r.cancelFn(deadline) }

func vNewRunCtx(label string) *vRunCtx {
	// param deadlineCtx=1 adds a fourth kind: a real context.WithTimeout whose deadline lies far in
	// the (virtual) future and which is cancelled explicitly through its cancel function
	switch vChoice(label+".ctxKind", 3+vParam("deadlineCtx", 0)) {
	case 3:
		vCover("deadline-context-cancelled-explicitly")
		c, cancel := context.WithTimeout(context.Background(), 1<<50)
		return &vRunCtx{Context: c, cancelFn: func(bool) { cancel() }}
	case 0:
		c := vNewCtx()
		return &vRunCtx{Context: c, cancelFn: c.cancel}
	case 1:
		c, cancel := context.WithCancel(context.Background())
		return &vRunCtx{Context: c, cancelFn: func(bool) { cancel() }}
	default:
		c, cancel := context.WithCancelCause(context.Background())
		return &vRunCtx{Context: c, cancelFn: func(bool) { cancel(vNewErr()) }}
	}
}

// vTok is a pointer payload with identity.
type vTok struct{ id int }

// vPayload returns an arbitrary payload of one of several dynamic kinds (forks on the kind;
// scalar contents stay symbolic).
// vPayloadE: vPayload plus payloads whose type happens to implement error (data, not failures)
func vPayloadE(label string) any {
	switch vChoice(label+".ekind", 3) {
	case 1:
		return &vError{id: 33}
	case 2:
		return vCustomErr{code: vNondet[int](label + ".code")}
	}
	return vPayload(label)
}

func vPayload(label string) any {
	switch vChoice(label+".kind", 5) {
	case 0:
		return nil
	case 1:
		return vNondet[int](label + ".int")
	case 2:
		return vNondet[string](label + ".str")
	case 3:
		return &vTok{id: 1}
	default:
		return map[string]any{"k": vNondet[int](label + ".mapv")}
	}
}

// vSimpleNode is a plain node that succeeds and returns a fixed action.
type vSimpleNode struct {
	act    Action
	visits int
}

func (n *vSimpleNode) Prep(ctx context.Context, s *SharedStore) (any, error) { return nil, nil }
func (n *vSimpleNode) Exec(ctx context.Context, p any) (any, error)          { return nil, nil }
func (n *vSimpleNode) Post(ctx context.Context, s *SharedStore, p, e any) (Action, error) {
	n.visits++
	return n.act, nil
}

// ---- a catalogue of dynamic types for "a value of any Go type" ----

type vMyInt int
type vMyStr string
type vMyBool bool
type vMyFloat float64
type vNamedSlice []any
type vStructCmp struct{ A int }
type vStructNonCmp struct{ A []int }
type vStructFloat struct{ F float64 }

type vInfo struct {
	isSlice bool // reflect kind is Slice
	n       int  // its length
	numeric int  // 0 no; 1..12 the documented numeric source types
	isStr   bool
	isBool  bool
	isMap   bool // exactly map[string]any
	elems   []any // for slices: the elements, boxed, in order (nil when not checked element-wise)
}

const vCatalogueSize = 48

// vAnyOf returns a value whose dynamic type is chosen (by forking) from the catalogue; scalar
// contents are symbolic. The info says what the *documentation* promises about it.
func vAnyOf(label string) (any, vInfo) {
	switch vChoice(label+".type", vCatalogueSize) {
	case 0:
		return nil, vInfo{}
	case 1:
		return vNondet[int](label + ".v"), vInfo{numeric: 1}
	case 2:
		return vNondet[int8](label + ".v"), vInfo{numeric: 2}
	case 3:
		return vNondet[int16](label + ".v"), vInfo{numeric: 3}
	case 4:
		return vNondet[int32](label + ".v"), vInfo{numeric: 4}
	case 5:
		return vNondet[int64](label + ".v"), vInfo{numeric: 5}
	case 6:
		return vNondet[uint](label + ".v"), vInfo{numeric: 6}
	case 7:
		return vNondet[uint8](label + ".v"), vInfo{numeric: 7}
	case 8:
		return vNondet[uint16](label + ".v"), vInfo{numeric: 8}
	case 9:
		return vNondet[uint32](label + ".v"), vInfo{numeric: 9}
	case 10:
		return vNondet[uint64](label + ".v"), vInfo{numeric: 10}
	case 11:
		return vNondet[float32](label + ".v"), vInfo{numeric: 11}
	case 12:
		return vNondet[float64](label + ".v"), vInfo{numeric: 12}
	case 13:
		return vNondet[string](label + ".v"), vInfo{isStr: true}
	case 14:
		return vNondet[bool](label + ".v"), vInfo{isBool: true}
	case 15:
		return map[string]any{"a": vNondet[int](label + ".v")}, vInfo{isMap: true}
	case 16:
		return []any{}, vInfo{isSlice: true}
	case 17:
		x := vNondet[int](label + ".v")
		return []any{x}, vInfo{isSlice: true, n: 1, elems: []any{x}}
	case 18:
		x := vNondet[int](label + ".v")
		return []any{x, "x"}, vInfo{isSlice: true, n: 2, elems: []any{x, "x"}}
	case 19:
		x := vNondet[string](label + ".v")
		return []string{x, "y"}, vInfo{isSlice: true, n: 2, elems: []any{x, "y"}}
	case 20:
		x := vNondet[int](label + ".v")
		return []int{x}, vInfo{isSlice: true, n: 1, elems: []any{x}}
	case 21:
		x := vNondet[float64](label + ".v")
		return []float64{x, 1.5}, vInfo{isSlice: true, n: 2, elems: []any{x, 1.5}}
	case 22:
		m := map[string]any{"k": 1}
		return []map[string]any{m}, vInfo{isSlice: true, n: 1, elems: []any{m}}
	case 23:
		x := vNondet[int8](label + ".v")
		return []int8{x, 2, 3}, vInfo{isSlice: true, n: 3, elems: []any{x, int8(2), int8(3)}} // reflection path
	case 24:
		return vNamedSlice{vNamedSlice{}}, vInfo{isSlice: true, n: 1} // named slice holding a slice
	case 25:
		return []Result{NewResult(1)}, vInfo{isSlice: true, n: 1}
	case 26:
		return []int(nil), vInfo{isSlice: true} // typed nil slice
	case 27:
		return map[string]int{"a": 1}, vInfo{} // a map, but not map[string]any; not comparable
	case 28:
		return func() {}, vInfo{} // not comparable
	case 29:
		return vStructNonCmp{A: []int{1}}, vInfo{} // struct containing a slice: not comparable
	case 30:
		return vStructCmp{A: vNondet[int](label + ".v")}, vInfo{}
	case 31:
		return vStructFloat{F: vNondet[float64](label + ".v")}, vInfo{} // comparable, x != x when NaN
	case 32:
		return vMyInt(vNondet[int](label + ".v")), vInfo{} // named numeric: not a documented source type
	case 33:
		return vMyStr(vNondet[string](label + ".v")), vInfo{}
	case 34:
		return vMyBool(vNondet[bool](label + ".v")), vInfo{}
	case 35:
		return (*int)(nil), vInfo{} // typed nil pointer
	case 36:
		x := vNondet[int](label + ".v")
		return &x, vInfo{}
	case 37:
		return make(chan int), vInfo{}
	case 38:
		return [1]int{vNondet[int](label + ".v")}, vInfo{}
	case 39:
		return [1][]int{{1}}, vInfo{} // array of slices: not comparable
	case 40:
		return vNondet[uintptr](label + ".v"), vInfo{}
	case 41:
		return &vError{id: 77}, vInfo{} // a payload that happens to implement error (pointer type)
	case 42:
		return vCustomErr{code: vNondet[int](label + ".v")}, vInfo{} // ... and a value type implementing error
	case 43:
		return NewResult(vNondet[int](label + ".v")), vInfo{} // the library's own Result as a payload: a struct, not a number
	case 44:
		return NewResult([]int{vNondet[int](label + ".v"), 2}), vInfo{} // ... not a slice either
	case 45:
		return NewResult(vNondet[string](label + ".v")), vInfo{} // ... nor a string
	case 46:
		return map[string]any(nil), vInfo{isMap: true} // a typed nil map: still a map[string]any
	default:
		return func(yield func(any) bool) { yield(1) }, vInfo{} // an iterator-shaped func: a func, not a slice
	}
}

func asNode(v any) Node {
	if v == nil {
		return nil
	}
	return v.(Node)
}
