//go:build verif

package flyt

// Shared harness helpers (plain Go, interpreted by the engine and compiled natively for replay).

import (
	"context"
	"time"
)

// vError is a harness error value with identity.
type vError struct{ id int }

func (e *vError) Error() string { return "verr" }

var vErrSeq int

func vNewErr() error { vErrSeq++; return &vError{id: vErrSeq} }

// vCustomErr is a custom-typed error (for errors.As checks).
type vCustomErr struct{ code int }

func (e vCustomErr) Error() string { return "vcustom" }

// vCtx is the harness's context implementation: cancellation is synchronous and explicit.
type vCtx struct {
	done chan struct{}
	err  error
	flag int32
}

var vErrCanceled error = &vError{id: -1}
var vErrDeadline error = &vError{id: -2}

func vNewCtx() *vCtx { return &vCtx{done: make(chan struct{})} }

func (c *vCtx) Deadline() (time.Time, bool) { return time.Time{}, false }
func (c *vCtx) Done() <-chan struct{}       { return c.done }
func (c *vCtx) Value(key any) any           { return nil }
func (c *vCtx) Err() error                  { return c.err }

func (c *vCtx) cancel(deadline bool) {
	if c.err != nil {
		return
	}
	if deadline {
		c.err = vErrDeadline
	} else {
		c.err = vErrCanceled
	}
	close(c.done)
}

var _ context.Context = (*vCtx)(nil)

// vTok is a pointer payload with identity.
type vTok struct{ id int }

// vPayload returns an arbitrary payload of one of several dynamic kinds (forks on the kind;
// scalar contents stay symbolic).
func vPayload(label string) any {
	switch vChoice(label+".kind", 5) {
	case 0:
		return nil
	case 1:
		return vNondet[int](label + ".int")
	case 2:
		return vNondet[string](label + ".str")
	case 3:
		return &vTok{id: 1}
	default:
		return map[string]any{"k": vNondet[int](label + ".mapv")}
	}
}

// vSimpleNode is a plain node that succeeds and returns a fixed action.
type vSimpleNode struct {
	act    Action
	visits int
}

func (n *vSimpleNode) Prep(ctx context.Context, s *SharedStore) (any, error) { return nil, nil }
func (n *vSimpleNode) Exec(ctx context.Context, p any) (any, error)          { return nil, nil }
func (n *vSimpleNode) Post(ctx context.Context, s *SharedStore, p, e any) (Action, error) {
	n.visits++
	return n.act, nil
}
