//go:build verif

package flyt

// Shared harness helpers (plain Go, interpreted by the engine and compiled natively for replay).

import (
	"context"
	"time"
)

// vError is a harness error value with identity.
type vError struct{ id int }

func (e *vError) Error() string { return "verr" }

var vErrSeq int

func vNewErr() error { vErrSeq++; return &vError{id: vErrSeq} }

// vCustomErr is a custom-typed error (for errors.As checks).
type vCustomErr struct{ code int }

func (e vCustomErr) Error() string { return "vcustom" }

// vCtx is the harness's context implementation: cancellation is synchronous and explicit.
type vCtx struct {
	done chan struct{}
	err  error
	flag int32
}

var vErrCanceled error = &vError{id: -1}
var vErrDeadline error = &vError{id: -2}

func vNewCtx() *vCtx { return &vCtx{done: make(chan struct{})} }

func (c *vCtx) Deadline() (time.Time, bool) { return time.Time{}, false }
func (c *vCtx) Done() <-chan struct{}       { return c.done }
func (c *vCtx) Value(key any) any           { return nil }
func (c *vCtx) Err() error                  { return c.err }

func (c *vCtx) cancel(deadline bool) {
	if c.err != nil {
		return
	}
	if deadline {
		c.err = vErrDeadline
	} else {
		c.err = vErrCanceled
	}
	close(c.done)
}

var _ context.Context = (*vCtx)(nil)
