//go:build verif

package flyt

// C13 layer 1 — white-box: needs the store's mutex and map fields. When the store is redesigned so
// that these fields no longer exist, this harness does not compile and is skipped (the check then
// rests on the black-box linearizability and race harnesses of c13.go).

// Layer 1: lock discipline. Every method runs with the store's map declared as guarded by its
// mutex: the engine checks that every access to the map (and to the field holding it) happens
// with the lock held (write lock for writes), and the harness checks that each operation is one
// critical section.
func VH_C13_discipline() {
	vUnwind(12)
	s := NewSharedStore()
	if vNondet[bool]("pre") {
		s.Set(vNondet[string]("prekey"), vNondet[int]("preval"))
	}
	vGuardedBy(&s.mu, &s.data)
	k := vNondet[string]("k")
	before := vSections(&s.mu)
	want := 1
	switch vChoice("method", 24) {
	case 0:
		s.Get(k)
	case 1:
		s.Set(k, vNondet[int]("v"))
	case 2:
		s.GetAll()
	case 3:
		s.Merge(map[string]any{k: 1, "other": 2}) // a two-key merge is ONE critical section
		vCover("merge-two-keys")
	case 4:
		s.Merge(nil)
		want = 0
	case 5:
		s.Has(k)
	case 6:
		s.Delete(k)
	case 7:
		s.Clear()
	case 8:
		s.Keys()
	case 9:
		s.Len()
	case 10:
		s.GetString(k)
	case 11:
		s.GetStringOr(k, "d")
	case 12:
		s.GetInt(k)
	case 13:
		s.GetIntOr(k, 1)
	case 14:
		s.GetFloat64(k)
	case 15:
		s.GetFloat64Or(k, 1)
	case 16:
		s.GetBool(k)
	case 17:
		s.GetBoolOr(k, true)
	case 18:
		s.GetSlice(k)
	case 19:
		s.GetSliceOr(k, nil)
	case 20:
		s.GetMap(k)
	case 21:
		s.GetMapOr(k, nil)
	case 22:
		var d int
		s.Bind(k, &d)
	default:
		var d int
		vPanics(func() { s.MustBind(k, &d) })
	}
	_, _ = before, want
	vAssert(vLockFree(&s.mu), "lock-released-on-return")
	vCover("method-ran")
}

