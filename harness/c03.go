//go:build verif

package flyt

import "context"

// C03 — flow routing follows the transition table exactly.

const (
	c03End  = -1 // reference cursor: the flow has ended
	c03A0   = Action("default")
	c03A1   = Action("b")
)

type c03Mon struct {
	expected int // reference cursor: index of the node that must be visited next, or c03End
	visits   int
	limit    int
	ref      [3][2]int // reference table: -2 unconnected, -1 nil, k = node k
	perNode  [3]int
	store    *SharedStore
	run      int
	run0visits int
	script   [8]Action // actions returned in the first run, replayed in the second
}

type c03Probe struct {
	id int
	m  *c03Mon
}

func (n *c03Probe) Prep(ctx context.Context, s *SharedStore) (any, error) {
	m := n.m
	vAssert(m.expected == n.id, "visited-node-is-the-one-the-table-determines")
	m.visits++
	m.perNode[n.id]++
	// cycles are cut at the visit bound (reported as outside the bound)
	vAssume(m.visits <= m.limit)
	return nil, nil
}

func (n *c03Probe) Exec(ctx context.Context, p any) (any, error) { return nil, nil }

func (n *c03Probe) Post(ctx context.Context, s *SharedStore, p, e any) (Action, error) {
	m := n.m
	var a Action
	if m.run == 0 || m.visits > m.run0visits {
		a = vNondet[Action]("act")
		if m.run == 0 {
			m.script[m.visits-1] = a
			m.run0visits = m.visits
		}
	} else {
		a = m.script[m.visits-1] // same script again: the second run must take the same path
	}
	// reference step: normalise, look up (last Connect wins), nil or missing ends the flow
	j := -1
	if a == "" || a == c03A0 {
		j = 0
		if a == "" {
			vCover("empty-action-routes-as-default")
		}
	} else if a == c03A1 {
		j = 1
	} else {
		vCover("foreign-action")
	}
	if j < 0 {
		m.expected = c03End
	} else {
		r := m.ref[n.id][j]
		if r == -2 {
			vCover("end-unconnected-action")
			m.expected = c03End
		} else if r == -1 {
			vCover("end-nil-target")
			m.expected = c03End
		} else {
			if r == n.id {
				vCover("self-loop")
			}
			m.expected = r
		}
	}
	return a, nil
}

func VH_C03_table() {
	vUnwind(12)
	nn := vParam("nodes", 2)
	m := &c03Mon{limit: vParam("L", 3), store: NewSharedStore()}
	probes := make([]*c03Probe, 3)
	nodes := make([]any, 4) // option 0 = nil target
	nodes[0] = Node(nil)
	for i := 0; i < 3; i++ {
		probes[i] = &c03Probe{id: i, m: m}
		nodes[i+1] = Node(probes[i])
	}
	acts := [2]Action{c03A0, c03A1}
	start := vNondet[int]("start")
	vAssume(0 <= start && start < nn)
	flow := NewFlow(vPick(start+1, nodes...).(Node))
	for i := 0; i < 3; i++ {
		for j := 0; j < 2; j++ {
			m.ref[i][j] = -2
		}
	}
	// round 1: every (node, action) slot is unconnected, or connected to nil / any node (symbolic);
	// with K > 0 every slot is connected and K further Connects overwrite symbolic positions
	K := vParam("K", 0)
	for i := 0; i < nn; i++ {
		for j := 0; j < 2; j++ {
			if K > 0 || vNondet[bool]("connected") {
				t := vNondet[int]("target")
				vAssume(0 <= t && t <= nn)
				flow.Connect(probes[i], acts[j], asNode(vPick(t, nodes...)))
				m.ref[i][j] = t - 1
			}
		}
	}
	// round 2: K further Connects at symbolic positions (overwrites, re-connections)
	for k := 0; k < K; k++ {
		{
			i := vChoice("xi", nn)
			j := vChoice("xj", 2)
			t := vNondet[int]("xtarget")
			vAssume(0 <= t && t <= nn)
			if m.ref[i][j] != -2 {
				vCover("overwrite")
			}
			flow.Connect(probes[i], acts[j], asNode(vPick(t, nodes...)))
			m.ref[i][j] = t - 1
		}
	}
	// two consecutive runs of the same flow object
	for run := 0; run < 2; run++ {
		if run == 1 && vParam("between", 0) > 0 && vNondet[bool]("connectBetweenRuns") {
			// a Connect between two runs of the same flow object (possibly from a node that had no
			// outgoing edge during the first run) takes effect in the next run
			i := vChoice("bi", nn)
			j := vChoice("bj", 2)
			t := vNondet[int]("btarget")
			vAssume(0 <= t && t <= nn)
			if m.ref[i][0] == -2 && m.ref[i][1] == -2 {
				vCover("connect-from-a-former-terminal-node")
			}
			flow.Connect(probes[i], acts[j], asNode(vPick(t, nodes...)))
			m.ref[i][j] = t - 1
			vCover("connect-between-runs")
		}
		m.expected = start
		m.visits = 0
		m.run = run
		err := flow.Run(vNewCtx(), m.store)
		vAssert(err == nil, "routing-never-fails")
		vAssert(m.expected == c03End, "flow-ends-exactly-where-the-table-ends")
		vAssert(m.visits >= 1, "start-node-runs")
		if run == 1 {
			vCover("second-run")
		}
	}
	for i := nn; i < 3; i++ {
		vAssert(m.perNode[i] == 0, "unused-node-never-touched")
	}
	vLog("visits", m.visits)
}

// nodes need not be pointers: a Node implemented on a value receiver (an enum-like int, an empty
// struct) is routed like any other — including the value that happens to be its type's zero value
var c03Vals [3]*c03Probe

type c03Val int

func (v c03Val) Prep(ctx context.Context, s *SharedStore) (any, error) { return c03Vals[v].Prep(ctx, s) }
func (v c03Val) Exec(ctx context.Context, p any) (any, error)          { return nil, nil }
func (v c03Val) Post(ctx context.Context, s *SharedStore, p, e any) (Action, error) {
	return c03Vals[v].Post(ctx, s, p, e)
}

type c03Empty struct{}

func (c03Empty) Prep(ctx context.Context, s *SharedStore) (any, error) { return c03Vals[2].Prep(ctx, s) }
func (c03Empty) Exec(ctx context.Context, p any) (any, error)          { return nil, nil }
func (c03Empty) Post(ctx context.Context, s *SharedStore, p, e any) (Action, error) {
	return c03Vals[2].Post(ctx, s, p, e)
}

func VH_C03_valueNodes() {
	vUnwind(12)
	m := &c03Mon{limit: vParam("L", 3), store: NewSharedStore()}
	nodes := []any{Node(nil), Node(c03Val(0)), Node(c03Val(1)), Node(c03Empty{})}
	for i := 0; i < 3; i++ {
		c03Vals[i] = &c03Probe{id: i, m: m}
		m.ref[i][0], m.ref[i][1] = -2, -2
	}
	start := vNondet[int]("start")
	vAssume(0 <= start && start < 3)
	flow := NewFlow(vPick(start+1, nodes...).(Node))
	for i := 0; i < 3; i++ {
		if vNondet[bool]("connected") {
			t := vNondet[int]("target")
			vAssume(0 <= t && t <= 3)
			flow.Connect(nodes[i+1].(Node), c03A0, asNode(vPick(t, nodes...)))
			m.ref[i][0] = t - 1
		}
	}
	m.expected = start
	err := flow.Run(vNewCtx(), m.store)
	vAssert(err == nil, "routing-never-fails")
	vAssert(m.expected == c03End, "flow-ends-exactly-where-the-table-ends")
	vAssert(m.visits >= 1, "start-node-runs")
	if m.perNode[0] > 0 {
		vCover("zero-valued-int-node-visited")
	}
	if m.perNode[2] > 0 {
		vCover("empty-struct-node-visited")
	}
}

// action names are opaque strings: ANY two names x, y given to Connect and ANY name z returned by
// post (symbolic strings, including names with separators, blanks, other spellings of "default")
// are routed by plain equality after the single normalisation "" -> "default"; the later Connect
// wins when x == y
type c03NameProbe struct {
	visits int
	act    Action
}

func (n *c03NameProbe) Prep(ctx context.Context, s *SharedStore) (any, error) { n.visits++; return nil, nil }
func (n *c03NameProbe) Exec(ctx context.Context, p any) (any, error)          { return nil, nil }
func (n *c03NameProbe) Post(ctx context.Context, s *SharedStore, p, e any) (Action, error) {
	return n.act, nil
}

func VH_C03_actionNames() {
	vUnwind(8)
	x, y, z := vNondet[Action]("x"), vNondet[Action]("y"), vNondet[Action]("z")
	a := &c03NameProbe{act: z}
	b, c := &c03NameProbe{act: "stop-here"}, &c03NameProbe{act: "stop-here"}
	flow := NewFlow(a)
	flow.Connect(a, x, b)
	flow.Connect(a, y, c)
	err := flow.Run(vNewCtx(), NewSharedStore())
	vAssert(err == nil, "routing-never-fails")
	vAssert(a.visits == 1, "start-node-runs")
	zz := z
	if zz == "" {
		zz = DefaultAction
	}
	switch {
	case zz == y:
		vCover("routed-by-the-later-connect")
		vAssert(c.visits == 1 && b.visits == 0, "visited-node-is-the-one-the-table-determines")
	case zz == x:
		vCover("routed-by-the-earlier-connect")
		vAssert(b.visits == 1 && c.visits == 0, "visited-node-is-the-one-the-table-determines")
	default:
		vCover("no-connection-for-the-action")
		vAssert(b.visits == 0 && c.visits == 0, "flow-ends-exactly-where-the-table-ends")
	}
}

// repeated runs of one flow object: whatever the previous run was like — a node failing in any
// phase, in the start node or later — the next run starts at the start node and follows the table
type c03FailProbe struct {
	*BaseNode
	id     int
	log    *[]int
	failAt *int // 0 none, 1 prep, 2 exec, 3 post — consumed by the first node that draws it
	me     int
}

func (n *c03FailProbe) Prep(ctx context.Context, s *SharedStore) (any, error) {
	*n.log = append(*n.log, n.id)
	if *n.failAt == 1 && n.me == n.id {
		return nil, vNewErr()
	}
	return nil, nil
}
func (n *c03FailProbe) Exec(ctx context.Context, p any) (any, error) {
	if *n.failAt == 2 && n.me == n.id {
		return nil, vNewErr()
	}
	return nil, nil
}
func (n *c03FailProbe) Post(ctx context.Context, s *SharedStore, p, e any) (Action, error) {
	if *n.failAt == 3 && n.me == n.id {
		return "next", vNewErr()
	}
	return "next", nil
}

func VH_C03_rerunAfterFailure() {
	vUnwind(8)
	var log []int
	failAt := vChoice("failingPhase", 4)
	who := vChoice("failingNode", 2)
	a := &c03FailProbe{BaseNode: NewBaseNode(), id: 0, log: &log, failAt: &failAt, me: who}
	b := &c03FailProbe{BaseNode: NewBaseNode(), id: 1, log: &log, failAt: &failAt, me: who}
	var flow *Flow
	if vNondet[bool]("nested") {
		inner := NewFlow(a)
		inner.Connect(a, "next", b)
		flow = NewFlow(inner)
	} else {
		flow = NewFlow(a)
		flow.Connect(a, "next", b)
	}
	err1 := flow.Run(vNewCtx(), NewSharedStore())
	if failAt != 0 {
		vCover("first-run-failed")
		vAssume(err1 != nil)
	}
	failAt = 0
	log = nil
	err := flow.Run(vNewCtx(), NewSharedStore())
	vAssert(err == nil, "routing-never-fails")
	vAssert(len(log) >= 1 && log[0] == 0, "start-node-runs")
	vAssert(len(log) == 2 && log[1] == 1, "flow-ends-exactly-where-the-table-ends")
	vCover("second-run")
}

// a user type that embeds *Flow and overrides Post (an adapter around a reusable sub-flow that
// translates the sub-flow's final action) is a node like any other: the enclosing flow routes on
// the action ITS Post returns
type c03Adapter struct {
	*Flow
	out   Action
	posts int
}

func (a *c03Adapter) Post(ctx context.Context, s *SharedStore, p, e any) (Action, error) {
	a.posts++
	return a.out, nil
}

func VH_C03_flowAdapter() {
	vUnwind(8)
	x := &c03NameProbe{act: "valid"}
	s := &c03Adapter{Flow: NewFlow(x), out: "done"}
	b, c := &c03NameProbe{act: "stop-here"}, &c03NameProbe{act: "stop-here"}
	var err error
	if vNondet[bool]("inFlow") {
		a := &c03NameProbe{act: "go"}
		outer := NewFlow(a)
		outer.Connect(a, "go", s).Connect(s, "done", b).Connect(s, "valid", c)
		err = outer.Run(vNewCtx(), NewSharedStore())
		vAssert(err == nil, "routing-never-fails")
		vAssert(x.visits == 1 && b.visits == 1 && c.visits == 0, "visited-node-is-the-one-the-table-determines")
	} else {
		var act Action
		act, err = Run(vNewCtx(), s, NewSharedStore())
		vAssert(err == nil && act == "done" && x.visits == 1, "visited-node-is-the-one-the-table-determines")
	}
	vAssert(s.posts == 1, "start-node-runs")
	vCover("flow-adapter")
}

// stateless nodes: two node types without fields, used through pointers (&loadStep{}, &checkStep{}),
// are two different nodes with their own transitions — although the runtime may give both the same
// address
type c03StepA struct{}
type c03StepB struct{}

var c03StepLog *[]int

func (*c03StepA) Prep(ctx context.Context, s *SharedStore) (any, error) { *c03StepLog = append(*c03StepLog, 1); return nil, nil }
func (*c03StepA) Exec(ctx context.Context, p any) (any, error)          { return nil, nil }
func (*c03StepA) Post(ctx context.Context, s *SharedStore, p, e any) (Action, error) {
	return "next", nil
}
func (*c03StepB) Prep(ctx context.Context, s *SharedStore) (any, error) { *c03StepLog = append(*c03StepLog, 2); return nil, nil }
func (*c03StepB) Exec(ctx context.Context, p any) (any, error)          { return nil, nil }
func (*c03StepB) Post(ctx context.Context, s *SharedStore, p, e any) (Action, error) {
	return "next", nil
}

func VH_C03_statelessNodes() {
	vUnwind(8)
	var log []int
	c03StepLog = &log
	a, b := &c03StepA{}, &c03StepB{}
	end := &c03NameProbe{act: "stop-here"}
	flow := NewFlow(a)
	flow.Connect(a, "next", b)
	flow.Connect(b, "next", end)
	err := flow.Run(vNewCtx(), NewSharedStore())
	vAssert(err == nil, "routing-never-fails")
	vAssert(len(log) == 2 && log[0] == 1 && log[1] == 2 && end.visits == 1, "visited-node-is-the-one-the-table-determines")
	vCover("stateless-nodes")
}

// a flow is a node: it may be the target of one of its own connections. S -again-> F (the flow
// itself, run as a node from its start) and S -done-> T; the flow reports T's action "end", on
// which the enclosing execution of F goes on to U. Each execution of F follows its own path: the
// recursion (bounded by S's counter) unwinds level by level through U
func VH_C03_selfNested() {
	vUnwind(12)
	levels := 1 + vChoice("levels", vParam("levels", 3)) // executions of F nested in each other
	s := &c10CountNode{until: levels, more: "again"}
	t, u := &vSimpleNode{act: "end"}, &vSimpleNode{act: "unwound"}
	f := NewFlow(s)
	f.Connect(s, "again", f).Connect(s, "done", t).Connect(f, "end", u)
	// the innermost execution ends after T and reports "end": the one around it goes on to U and
	// reports "unwound" - for which F has a connection (to U again) only in the second variant
	always := vNondet[bool]("unwoundIsConnectedToo")
	if always {
		f.Connect(f, "unwound", u)
	}
	err := f.Run(vNewCtx(), NewSharedStore())
	vAssert(err == nil, "flow-follows-the-transition-table")
	wantU := levels - 1
	if !always && wantU > 1 {
		wantU = 1
	}
	if levels > 1 {
		vCover("flow-nested-in-itself")
	}
	vAssert(s.visits == levels && t.visits == 1 && u.visits == wantU, "flow-follows-the-transition-table")
	vCover("self-nested")
}

// a flow used as a node ends where its own table ends - at an unconnected pair or at a pair
// connected to nil (possibly one that had a target before) - and the enclosing flow routes on the
// action of the node it ended at, exactly as for a plain node
func VH_C03_nestedEnds() {
	vUnwind(8)
	act := vNondet[Action]("innerAction")
	vAssume(act != "" && act != DefaultAction)
	a := &vSimpleNode{act: act}
	never := &vSimpleNode{act: "never"}
	g := NewFlow(a)
	switch vChoice("ending", 3) {
	case 1:
		vCover("inner-flow-ends-at-a-nil-connection")
		g.Connect(a, act, nil)
	case 2:
		vCover("inner-flow-ends-at-a-connection-cut-by-nil")
		g.Connect(a, act, never).Connect(a, act, nil)
	}
	x, y := &vSimpleNode{act: "end"}, &vSimpleNode{act: "end"}
	f := NewFlow(g)
	f.Connect(g, act, x).Connect(g, DefaultAction, y)
	err := f.Run(vNewCtx(), NewSharedStore())
	vAssert(err == nil, "flow-follows-the-transition-table")
	vAssert(a.visits == 1 && never.visits == 0, "flow-ends-exactly-where-the-table-ends")
	vAssert(x.visits == 1 && y.visits == 0, "visited-node-is-the-one-the-table-determines")
	vCover("nested-ends")
}
