//go:build verif

package flyt

import (
	"context"
	"time"
)

// C02 — retry budget and fallback are exact.

type c02Node struct {
	*BaseNode
	prepTok  any
	calls    int
	okAt     int
	fb       int
	lastErr  error
	firstErr error
	fbMode   int // 0 ok, 1 err, 2 ok with a nil value
	fbErr    error
	fbVal    any
	execVal  any
	postGot  any
	posts    int
	budget       int
	cancelInLast *vCtx // cancel this context inside attempt number `budget`
	partial  bool // failed attempts return a partial value next to their error
	maxFails int // > 0: at most this many failed attempts, then the attempt succeeds
}

func (n *c02Node) Prep(ctx context.Context, s *SharedStore) (any, error) { return n.prepTok, nil }

func (n *c02Node) Exec(ctx context.Context, p any) (any, error) {
	vAssert(n.okAt == 0, "no-attempt-after-success")
	n.calls++
	if n.cancelInLast != nil && n.calls == n.budget {
		// the context is cancelled from inside the LAST attempt: if that attempt fails too, all N
		// attempts have failed and the fallback is due
		vCover("cancelled-inside-the-last-attempt")
		n.cancelInLast.cancel(false)
	}
	if (n.maxFails == 0 || n.calls <= n.maxFails) && vNondet[bool]("fail") {
		// an attempt may fail with any kind of error value; it is still just a failed attempt
		n.lastErr = vFailure("exec")
		vCover("attempt-error-forms")
		if n.firstErr == nil {
			n.firstErr = n.lastErr
		}
		if n.partial {
			return &vTok{id: 666}, n.lastErr // a partial value next to the error: still a failed attempt
		}
		return nil, n.lastErr
	}
	n.okAt = n.calls
	n.execVal = &vError{id: 1000 + n.calls}
	return n.execVal, nil
}

func (n *c02Node) ExecFallback(p any, err error) (any, error) {
	n.fb++
	vAssert(vSame(p, n.prepTok), "fallback-gets-prep-value")
	vAssert(vSame(err, n.lastErr), "fallback-gets-last-error")
	if n.fbMode == 1 {
		n.fbErr = vNewErr()
		return nil, n.fbErr
	}
	if n.fbMode == 2 {
		vCover("fallback-recovers-with-nil")
		n.fbVal = nil // swallowing the failure with a nil value: that nil is the outcome
		return nil, nil
	}
	n.fbVal = &vError{id: 2000}
	return n.fbVal, nil
}

func (n *c02Node) Post(ctx context.Context, s *SharedStore, p, e any) (Action, error) {
	n.posts++
	n.postGot = e
	return "done", nil
}

type c02Override struct{ *c02Node }

func (n *c02Override) GetMaxRetries() int { return n.budget }

func VH_C02_struct() {
	maxN := vParam("N", 4)
	N := vNondet[int]("N")
	vAssume(1 <= N && N <= maxN)
	vUnwind(maxN + 2)
	n := &c02Node{BaseNode: NewBaseNode(WithMaxRetries(N)), prepTok: &vError{id: 7}}
	n.fbMode = vChoice("fbMode", 3)
	n.partial = vNondet[bool]("failedAttemptsAlsoReturnAValue")
	ctx := vNewCtx()
	n.budget = N
	if vNondet[bool]("cancelInsideTheLastAttempt") {
		n.cancelInLast = ctx
	}
	var node Node = n
	if vNondet[bool]("budgetFromAnOverriddenGetter") {
		// the budget is what the node's GetMaxRetries reports: a node type that embeds the base
		// node (left at its default) and overrides the getter - the README's CustomRetryNode - gets N
		vCover("budget-from-an-overridden-getter")
		n.BaseNode = NewBaseNode()
		node = &c02Override{c02Node: n}
	}
	_, err := Run(ctx, node, NewSharedStore())
	vLog("calls", n.calls)
	vLog("fb", n.fb)
	if n.okAt > 0 {
		vCover("success")
		if n.okAt > 1 {
			vCover("success-after-retry")
		}
		vAssert(n.calls == n.okAt, "stop-at-first-success")
		vAssert(n.fb == 0, "no-fallback-after-success")
	} else {
		vCover("all-failed")
		vAssert(n.calls == N, "exactly-N-attempts")
		vAssert(n.fb == 1, "fallback-exactly-once")
		if n.fbMode != 1 {
			vCover("fallback-ok")
			vAssert(err == nil && n.posts == 1 && vSame(n.postGot, n.fbVal), "fallback-outcome-replaces-exec")
		} else {
			vCover("fallback-err")
			vAssert(err != nil && n.posts == 0, "fallback-error-replaces-the-exec-outcome")
		}
	}
}

// with a real deadline context and a retry wait (virtual clock): as long as the context has not
// expired the budget and fallback rules are unchanged — in particular a deadline that is merely
// *approaching* does not entitle the framework to give up early
func VH_C02_deadline() {
	maxN := vParam("N", 3)
	N := vNondet[int]("N")
	vAssume(2 <= N && N <= maxN)
	vUnwind(maxN + 2)
	w := vNondet[time.Duration]("w")
	vAssume(w > 0 && w <= 1<<40)
	D := vNondet[time.Duration]("deadline")
	vAssume(D > 0 && D <= 1<<42)
	ctx, cancel := context.WithTimeout(context.Background(), D)
	defer cancel()
	n := &c02Node{BaseNode: NewBaseNode(WithMaxRetries(N), WithWait(w)), prepTok: &vError{id: 7}}
	_, err := Run(ctx, n, NewSharedStore())
	if ctx.Err() != nil {
		vCover("deadline-expired-during-the-run")
	} else {
		vCover("deadline-not-reached")
	}
	// the fallback is for exhausted budgets only, expired deadline or not
	vAssert(n.fb == 0 || n.calls == N, "fallback-only-after-all-N-attempts-failed")
	if n.okAt > 0 {
		vAssert(n.calls == n.okAt && n.fb == 0, "stop-at-first-success")
	}
	if ctx.Err() == nil && n.okAt == 0 {
		vAssert(n.calls == N && n.fb == 1, "exactly-N-attempts-then-fallback")
	}
	_ = err
}

// ANY budget >= 1 (the budget stays symbolic: no upper bound), failure scripts of at most F failed
// attempts before the first success: attempts = min(k, N) for every N, including budgets far above
// anything a concrete enumeration would try
func VH_C02_anyBudget() {
	F := vParam("F", 3)
	N := vNondet[int]("N")
	vAssume(N >= 1)
	vUnwind(F + 3)
	n := &c02Node{BaseNode: NewBaseNode(WithMaxRetries(N)), prepTok: &vError{id: 7}}
	n.maxFails = F
	n.fbMode = vChoice("fbMode", 2)
	_, err := Run(vNewCtx(), n, NewSharedStore())
	vLog("calls", n.calls)
	vLog("fb", n.fb)
	if N > F {
		vCover("budget-above-every-script")
		vAssert(n.okAt > 0, "a-success-inside-the-budget-is-reached")
	}
	if n.okAt > 0 {
		vCover("success")
		vAssert(n.calls == n.okAt && n.fb == 0 && err == nil && n.posts == 1, "stop-at-first-success")
	} else {
		vCover("all-failed")
		vAssert(n.calls == N, "exactly-N-attempts")
		vAssert(n.fb == 1, "fallback-exactly-once")
	}
}

// a Flow is a node kind too: used as a node (directly, or nested in an outer flow) with its own
// retry budget, one attempt = one walk of its graph; the leaf fails per script
type c02Leaf struct {
	calls, okAt, maxFails int
	posts                 int
}

func (l *c02Leaf) Prep(ctx context.Context, s *SharedStore) (any, error) { return nil, nil }
func (l *c02Leaf) Exec(ctx context.Context, p any) (any, error) {
	l.calls++
	if l.calls <= l.maxFails && vNondet[bool]("fail") {
		return nil, vFailure("leaf")
	}
	if l.okAt == 0 {
		l.okAt = l.calls
	}
	return nil, nil
}
func (l *c02Leaf) Post(ctx context.Context, s *SharedStore, p, e any) (Action, error) {
	l.posts++
	return "done", nil
}

func VH_C02_flowBudget() {
	F := vParam("F", 2)
	maxN := vParam("N", 3)
	N := vNondet[int]("N")
	vAssume(1 <= N && N <= maxN)
	vUnwind(maxN + F + 3)
	leaf := &c02Leaf{maxFails: F}
	head := &vSimpleNode{act: "go"}
	inner := NewFlow(head)
	inner.Connect(head, "go", leaf)
	WithMaxRetries(N)(inner.BaseNode)
	var err error
	if vNondet[bool]("nested") {
		vCover("flow-nested-in-a-flow")
		first := &vSimpleNode{act: "in"}
		outer := NewFlow(first)
		outer.Connect(first, "in", inner)
		_, err = Run(vNewCtx(), outer, NewSharedStore())
	} else {
		vCover("flow-run-directly")
		_, err = Run(vNewCtx(), inner, NewSharedStore())
	}
	vLog("calls", leaf.calls)
	if leaf.okAt > 0 {
		vCover("success")
		if leaf.okAt > 1 {
			vCover("success-after-retry")
		}
		vAssert(leaf.calls == leaf.okAt, "stop-at-first-success")
		vAssert(err == nil, "a-success-inside-the-budget-succeeds")
	} else {
		vCover("all-failed")
		vAssert(leaf.calls == N, "exactly-N-attempts")
		vAssert(err != nil, "exhausted-budget-without-fallback-fails")
	}
}

// a batch item may itself be an error Result (the output of an earlier stage fed back in): it is an
// item like any other — it gets its attempts, and the fallback only after all of them failed
func VH_C02_errorItem() {
	maxN := vParam("N", 3)
	N := vNondet[int]("N")
	vAssume(1 <= N && N <= maxN)
	vUnwind(maxN + 4)
	upstream := vNewErr()
	calls, okAt, fb := 0, 0, 0
	var lastErr, fbGot error
	b := NewBatchNode().WithMaxRetries(N).WithBatchConcurrency(vChoice("concurrency", 2)).
		WithPrepFunc(func(ctx context.Context, s *SharedStore) ([]Result, error) {
			return []Result{NewErrorResult(upstream)}, nil
		}).
		WithExecFunc(func(ctx context.Context, item Result) (Result, error) {
			var err error
			vMon(func() {
				vAssert(item.IsError() && item.Error() == upstream, "exec-receives-the-item")
				calls++
				if okAt == 0 && vNondet[bool]("fail") {
					lastErr = vNewErr()
					err = lastErr
				} else if okAt == 0 {
					okAt = calls
				}
			})
			return NewResult(7), err
		})
	WithExecFallbackFunc(func(p any, err error) (any, error) {
		vMon(func() { fb++; fbGot = err })
		return nil, err
	}).apply(b.CustomNode)
	Run(vNewCtx(), b, NewSharedStore())
	if okAt > 0 {
		vCover("success")
		vAssert(calls == okAt && fb == 0, "stop-at-first-success")
	} else {
		vCover("all-failed")
		vAssert(calls == N, "exactly-N-attempts")
		vAssert(fb == 1 && fbGot == lastErr, "fallback-exactly-once")
	}
}

// the budget of a batch item that has been started is its own, in stop mode too: item 0 fails (for
// good) while item 1, picked up by the other worker, is between two attempts — item 1 still gets
// min(k, N) attempts, and its fallback exactly when all of them failed (the caller's context is
// alive throughout)
func VH_C02_stopSiblings() {
	N := 2 + vChoice("N", vParam("N", 2)-1)
	vUnwind(N + 6)
	ctx, cancel := context.WithCancel(context.Background())
	defer cancel()
	calls, okAt, fb := [2]int{}, [2]int{}, [2]int{}
	b := NewBatchNode().WithMaxRetries(N).WithBatchConcurrency(2).WithBatchErrorHandling(false).
		WithPrepFunc(func(ctx context.Context, s *SharedStore) ([]Result, error) {
			return []Result{NewResult(100), NewResult(101)}, nil
		}).
		WithExecFunc(func(ctx context.Context, item Result) (Result, error) {
			k := bIndex(item)
			var err error
			vMonC(1, func() {
				calls[k]++
				if k == 0 || (okAt[1] == 0 && vNondet[bool]("fail")) {
					err = vNewErr()
				} else if okAt[1] == 0 {
					okAt[1] = calls[1]
				}
			})
			return item, err
		})
	WithExecFallbackFunc(func(p any, err error) (any, error) {
		r, _ := p.(Result)
		k := bIndex(r)
		vMonC(1, func() { fb[k]++ })
		return nil, err
	}).apply(b.CustomNode)
	Run(ctx, b, NewSharedStore())
	for k := 0; k < 2; k++ {
		if calls[k] == 0 {
			continue // never started (stop mode): C09's business
		}
		if okAt[k] > 0 {
			vAssert(calls[k] == okAt[k] && fb[k] == 0, "stop-at-first-success")
		} else {
			vAssert(calls[k] == N, "exactly-N-attempts")
			vAssert(fb[k] == 1, "fallback-exactly-once")
		}
	}
	if calls[1] > 1 {
		vCover("sibling-retried-in-stop-mode")
	}
}
