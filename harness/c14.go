//go:build verif

package flyt

// C14 — shared store behaves as a map and hands out isolated snapshots.

const c14Cap = 8

// reference map: parallel arrays with linear search (deliberately not a Go map)
type c14Ref struct {
	used [c14Cap]bool
	keys [c14Cap]string
	vals [c14Cap]any
}

func (r *c14Ref) find(k string) int {
	for i := 0; i < c14Cap; i++ {
		if r.used[i] && r.keys[i] == k {
			return i
		}
	}
	return -1
}
func (r *c14Ref) set(k string, v any) {
	if i := r.find(k); i >= 0 {
		r.vals[i] = v
		return
	}
	for i := 0; i < c14Cap; i++ {
		if !r.used[i] {
			r.used[i], r.keys[i], r.vals[i] = true, k, v
			return
		}
	}
	vFail("reference map full")
}
func (r *c14Ref) del(k string) {
	if i := r.find(k); i >= 0 {
		r.used[i] = false
		r.vals[i] = nil
	}
}
func (r *c14Ref) clear() {
	for i := 0; i < c14Cap; i++ {
		r.used[i] = false
		r.vals[i] = nil
	}
}
func (r *c14Ref) length() int {
	n := 0
	for i := 0; i < c14Cap; i++ {
		if r.used[i] {
			n++
		}
	}
	return n
}
func (r *c14Ref) copyOf() *c14Ref {
	c := *r
	return &c
}

// c14Val: a value of symbolic kind (nil, int with symbolic content, pointer, nested map[string]any). The kind is a lazily
// forked choice: the store never looks into values, so it stays unforked unless something does.
var c14Base []any

func c14Val(label string) any {
	k := vNondet[int](label + ".kind")
	vAssume(0 <= k && k < 7)
	if c14Base == nil {
		c14Base = []any{1, 2, 3}
	}
	// ... or a nested map with a symbolic key of its own: to the store it is a value like any other
	return vPick(k, nil, vNondet[int](label+".int"), &vTok{id: 5}, map[string]any{vNondet[string](label + ".inner"): 7},
		// two views of one backing array that differ in length only: different values all the same
		c14Base[:2], c14Base[:3],
		[]int{4, 5}) // a typed slice: the typed getters convert it, the store keeps it as it is
}

// c14Agree: the store's observable abstraction equals the reference's
func c14Agree(s *SharedStore, r *c14Ref, tag string) {
	pk := vNondet[string]("probeKey")
	// reads are reads: the typed getters leave the store's answers as they were
	s.GetSliceOr(pk, nil)
	s.GetIntOr(pk, 0)
	v, ok := s.Get(pk)
	i := r.find(pk)
	vAssert(ok == (i >= 0), "get-found-agrees")
	vAssert(s.Has(pk) == (i >= 0), "has-agrees-with-get")
	if i >= 0 {
		vAssert(vSame(v, r.vals[i]), "get-value-agrees")
		if vNondet[bool]("look") && r.vals[i] == nil {
			vCover("stored-nil-is-present")
		}
	} else {
		vAssert(v == nil, "get-missing-yields-nil")
	}
	n := r.length()
	vAssert(s.Len() == n, "len-agrees")
	ks := s.Keys()
	vAssert(len(ks) == n, "keys-length-agrees")
	for _, k := range ks {
		vAssert(r.find(k) >= 0, "every-key-reported-is-in-the-reference")
	}
	for a := 0; a < len(ks); a++ {
		for b := a + 1; b < len(ks); b++ {
			vAssert(ks[a] != ks[b], "keys-has-no-duplicates")
		}
	}
	all := s.GetAll()
	vAssert(len(all) == n, "getall-length-agrees")
	for i := 0; i < c14Cap; i++ {
		if r.used[i] {
			gv, gok := all[r.keys[i]]
			vAssert(gok && vSame(gv, r.vals[i]), "getall-entry-agrees")
		}
	}
}

func c14Pre(label string) (*SharedStore, *c14Ref) {
	s := NewSharedStore()
	r := &c14Ref{}
	maxk := vParam("pre", 2)
	k := vChoice(label+".n", maxk+1)
	for i := 0; i < k; i++ {
		key := vNondet[string](label + ".key")
		val := c14Val(label + ".val")
		s.Set(key, val)
		r.set(key, val)
	}
	return s, r
}

// one symbolic operation from an arbitrary (bounded) pre-state
func c14Op(s *SharedStore, r *c14Ref) {
	switch vChoice("op", 9) {
	case 0:
		vCover("op-set")
		k, v := vNondet[string]("k"), c14Val("v")
		if r.find(k) >= 0 {
			vCover("set-overwrites")
		}
		s.Set(k, v)
		r.set(k, v)
	case 1:
		vCover("op-delete")
		k := vNondet[string]("k")
		if r.find(k) < 0 {
			vCover("delete-missing")
		}
		s.Delete(k)
		r.del(k)
	case 2:
		vCover("op-clear")
		s.Clear()
		r.clear()
	case 3:
		vCover("op-merge")
		m := map[string]any{}
		mm := vParam("merge", 2)
		n := vChoice("mergeN", mm+1)
		for i := 0; i < n; i++ {
			k, v := vNondet[string]("mk"), c14Val("mv")
			m[k] = v
			r.set(k, v)
		}
		s.Merge(m)
		// the store copies entries in: it must not adopt (alias) the caller's map
		if vNondet[bool]("touchMergeArgAfterwards") {
			vCover("merge-arg-mutated-afterwards")
			k2, v2 := vNondet[string]("ak"), c14Val("av")
			if vNondet[bool]("mutateArg") {
				m[k2] = v2 // caller keeps using its map: the store must not change
			} else {
				before := len(m)
				_, had := m[k2]
				s.Set(k2, v2) // store update: the caller's map must not change
				r.set(k2, v2)
				_, has := m[k2]
				vAssert(len(m) == before && had == has, "store-update-does-not-change-the-merged-in-map")
			}
		}
	case 4:
		vCover("op-merge-nil")
		s.Merge(nil)
	case 5:
		vCover("op-get")
		s.Get(vNondet[string]("k"))
	case 6:
		vCover("op-keys-len-has")
		s.Keys()
		s.Len()
		s.Has(vNondet[string]("k"))
	case 7:
		vCover("op-getall")
		s.GetAll()
	default:
		vCover("op-merge-own-snapshot")
		snap := s.GetAll()
		if vNondet[bool]("clearFirst") {
			vCover("clear-then-merge-snapshot")
			s.Clear() // Merge of a snapshot into the emptied store restores it ...
		}
		s.Merge(snap) // ... and otherwise is a no-op
		n0 := len(snap)
		k2, v2 := vNondet[string]("ak"), c14Val("av")
		_, had := snap[k2]
		s.Set(k2, v2) // later store updates never change a snapshot
		r.set(k2, v2)
		_, has := snap[k2]
		vAssert(len(snap) == n0 && had == has, "store-update-does-not-change-an-earlier-snapshot")
	}
}

func VH_C14_step() {
	vUnwind(16)
	s, r := c14Pre("pre")
	c14Op(s, r)
	c14Agree(s, r, "after")
}

func VH_C14_seq() {
	vUnwind(16)
	s, r := c14Pre("pre")
	n := vParam("ops", 2)
	for i := 0; i < n; i++ {
		c14Op(s, r)
	}
	c14Agree(s, r, "after")
}

func VH_C14_snap() {
	vUnwind(16)
	s, r := c14Pre("pre")
	snap := s.GetAll()
	ks := s.Keys()
	snapRef := r.copyOf()
	nks := len(ks)
	var ks0 string
	if nks > 0 {
		ks0 = ks[0]
	}
	// mutate the snapshots: the store must not change
	switch vChoice("snapMut", 3) {
	case 0:
		snap[vNondet[string]("sk")] = c14Val("sv")
		vCover("snapshot-insert-or-overwrite")
	case 1:
		delete(snap, vNondet[string]("sk"))
		vCover("snapshot-delete")
	default:
		if nks > 0 {
			ks[0] = "mutated-key"
			vCover("keys-slice-mutated")
		}
	}
	c14Agree(s, r, "store-after-snapshot-mutation")
	// take fresh snapshots, mutate the store: the snapshots must not change
	snap2 := s.GetAll()
	ks2 := s.Keys()
	c14Op(s, r)
	vAssert(len(snap2) == snapRef.length(), "old-snapshot-keeps-its-size")
	for i := 0; i < c14Cap; i++ {
		if snapRef.used[i] {
			gv, gok := snap2[snapRef.keys[i]]
			vAssert(gok && vSame(gv, snapRef.vals[i]), "old-snapshot-keeps-its-entries")
		}
	}
	vAssert(len(ks2) == snapRef.length(), "old-keys-slice-keeps-its-length")
	for _, k := range ks2 {
		vAssert(snapRef.find(k) >= 0, "old-keys-slice-keeps-its-keys")
	}
	_ = ks0
}

// observers are read-only also across a reset: populate, observe (Keys / GetAll / Len), remove
// (Clear or Delete), populate again — the answers are those of the plain map subjected to the same
// sequence, however many changes happened before and after the reset
func VH_C14_observeResetRefill() {
	vUnwind(16)
	s, r := c14Pre("pre")
	s.Keys()
	s.GetAll()
	s.Len()
	if vNondet[bool]("clear") {
		vCover("reset-by-clear")
		s.Clear()
		r.clear()
	} else {
		k := vNondet[string]("dk")
		s.Delete(k)
		r.del(k)
	}
	n := vChoice("refill", 3)
	for i := 0; i < n; i++ {
		k, v := vNondet[string]("rk"), c14Val("rv")
		if vNondet[bool]("viaMerge") {
			s.Merge(map[string]any{k: v})
		} else {
			s.Set(k, v)
		}
		r.set(k, v)
	}
	if n > 0 {
		vCover("refilled")
	}
	c14Agree(s, r, "after")
}

// Bind is a read: whatever it answers (also when the stored value cannot be converted, or cannot
// even be encoded) the store is afterwards exactly as usable as before
func VH_C14_bindIsARead() {
	vUnwind(16)
	s, r := c14Pre("pre")
	key := vNondet[string]("bindKey")
	if vNondet[bool]("storedValueCannotBeEncoded") {
		vCover("bind-of-an-unencodable-value")
		ch := make(chan int)
		s.Set(key, ch)
		r.set(key, ch)
	}
	var err error
	switch vChoice("dest", 3) {
	case 0:
		var d struct{ A int }
		err = s.Bind(key, &d)
	case 1:
		var d int
		err = s.Bind(key, &d)
	default:
		var d map[string]any
		err = s.Bind(key, &d)
	}
	_ = err // what Bind answers is C15/C16's business
	k, v := vNondet[string]("k"), c14Val("v")
	s.Set(k, v)
	r.set(k, v)
	if vNondet[bool]("thenDelete") {
		k2 := vNondet[string]("k2")
		s.Delete(k2)
		r.del(k2)
	}
	c14Agree(s, r, "after-write")
	vCover("bind-then-write")
}
